#!/usr/bin/env python3
"""Self-test of the checks: a corpus of changes to /repo that each check must catch (reverts of the
defect repairs, the seeded changes under /verif/seeded) or must keep passing (harmless edits).

Each case is applied to a scratch copy of /repo's working tree (outside /repo and /verif, removed
afterwards); the check runs against the copy with VERIF_REPO/VERIF_OUT so that the real evidence,
replays and scratch directories are untouched.

usage: selftest/run.py [-j N] [filter ...]     filter = property id or substring of a case id
exit 0 when every expectation is met."""
import json, os, shutil, subprocess, sys, tempfile, time, concurrent.futures

VERIF = os.path.dirname(os.path.dirname(os.path.abspath(__file__)))
REPO = os.environ.get("VERIF_REPO", "/repo")

def cases():
    out = []
    corpus = json.load(open(os.path.join(VERIF, "selftest", "corpus.json")))
    for c in corpus["cases"]:
        out.append(c)
    seeded = os.path.join(VERIF, "seeded")
    for d in sorted(os.listdir(seeded)):
        mp = os.path.join(seeded, d, "meta.json")
        if not os.path.exists(mp):
            continue
        m = json.load(open(mp))
        det = m.get("detected_by", "missed")
        props = m.get("check_props") or [m["property"]]
        out.append({"id": "seed-" + d, "patch": os.path.join("seeded", d, "patch.diff"), "props": props,
                    "expect": "miss-known" if det == "missed" else "violation"})
    return out

def run_case(c):
    scratch = tempfile.mkdtemp(prefix="verif-selftest-")
    res = {"id": c["id"], "expect": c["expect"], "props": {}, "ok": True}
    try:
        tree = os.path.join(scratch, "repo")
        subprocess.run(["rsync", "-a", "--exclude", ".git", REPO + "/", tree + "/"], check=True)
        if c.get("patch"):
            p = subprocess.run(["patch", "-p1", "-s", "-i", os.path.join(VERIF, c["patch"])], cwd=tree, capture_output=True, text=True)
            if p.returncode != 0:
                res["ok"] = False
                res["error"] = "patch does not apply: " + (p.stdout + p.stderr)[:300]
                return res
        env = dict(os.environ, VERIF_REPO=tree, VERIF_OUT=os.path.join(scratch, "out"),
                   GOFLAGS="-mod=mod", GOPROXY="off", GOSUMDB="off", GOTOOLCHAIN="local")
        for prop in c["props"]:
            t0 = time.time()
            r = subprocess.run([os.path.join(VERIF, "bin", "govc"), "check", "-prop", prop, "-tier", "quick", "-verif", VERIF],
                               env=env, capture_output=True, text=True, timeout=1800)
            viol = [l for l in r.stdout.splitlines() if l.startswith("VIOLATION")]
            failed = [l.split()[2] for l in r.stdout.splitlines() if l.startswith("FAILED OBLIGATION")]
            res["props"][prop] = {"exit": r.returncode, "violations": len(viol), "obligations": failed[:8], "secs": round(time.time() - t0, 1)}
            if r.returncode not in (0, 1):
                res["props"][prop]["output"] = (r.stdout + r.stderr)[-600:]
        exits = [v["exit"] for v in res["props"].values()]
        caught = any(e == 1 for e in exits) and all(e in (0, 1) for e in exits)
        if c["expect"] == "violation":
            res["ok"] = caught
            want = c.get("obligation")
            if caught and want:
                names = [o for v in res["props"].values() for o in v["obligations"]]
                res["ok"] = any(want in n for n in names)
        elif c["expect"] == "pass":
            res["ok"] = all(e == 0 for e in exits)
        else:  # miss-known: informational; a catch is good news, a broken check is not
            res["ok"] = all(e in (0, 1) for e in exits)
            res["caught"] = caught
        return res
    finally:
        shutil.rmtree(scratch, ignore_errors=True)

def main():
    args = sys.argv[1:]
    jobs = 2
    if "-j" in args:
        i = args.index("-j")
        jobs = int(args[i + 1])
        del args[i:i + 2]
    cs = [c for c in cases() if not args or any(a in c["id"] or a in c["props"] for a in args)]
    print("self-test: %d cases" % len(cs))
    results = []
    with concurrent.futures.ThreadPoolExecutor(max_workers=jobs) as ex:
        for r in ex.map(run_case, cs):
            results.append(r)
            tag = "ok  " if r["ok"] else "FAIL"
            detail = "; ".join("%s exit=%s viol=%s %ss" % (p, v["exit"], v["violations"], v["secs"]) for p, v in r["props"].items())
            extra = ""
            if r["expect"] == "miss-known":
                extra = " (recorded as missed; now %s)" % ("caught" if r.get("caught") else "still missed")
            print("%s %-44s expect=%-10s %s%s%s" % (tag, r["id"], r["expect"], detail, extra, " " + r.get("error", "") if r.get("error") else ""), flush=True)
    json.dump({"when": time.strftime("%Y-%m-%dT%H:%M:%SZ", time.gmtime()), "results": results},
              open(os.path.join(VERIF, "selftest", "last_run.json"), "w"), indent=1)
    bad = [r for r in results if not r["ok"]]
    print("self-test: %d/%d expectations met" % (len(results) - len(bad), len(results)))
    sys.exit(1 if bad else 0)

if __name__ == "__main__":
    main()
