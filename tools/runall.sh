#!/bin/bash
# regenerate every claimed property's evidence on the current tree (quick tier); prints one line per property
cd /verif
for p in $(python3 -c "import json;print(' '.join(c['property_id'] for c in json.load(open('MANIFEST.json'))['checks']))"); do
  ./check $p ${1:-quick} 2>&1 | grep -E "VIOLATION|BROKEN|quick:|thorough:" | cut -c1-200
done
