#!/usr/bin/env python3
"""Rewrites the seeded-change table in DESIGN.md (between the SEEDTABLE markers) from /verif/seeded/*/meta.json."""
import json, glob, os, re
root = os.path.dirname(os.path.dirname(os.path.abspath(__file__)))
rows = []
for f in sorted(glob.glob(os.path.join(root, "seeded", "*", "meta.json"))):
    m = json.load(open(f))
    det = m.get("detected_by", "missed")
    s = m["summary"].replace("|", "/").replace("\n", " ")
    if len(s) > 150:
        s = s[:147] + "..."
    rows.append("| %s | %s | %s |" % (m["id"], s, det.replace("|", "/")))
table = "| seeded change | what it does | reported by |\n|---|---|---|\n" + "\n".join(rows)
p = os.path.join(root, "DESIGN.md")
d = open(p).read()
d = re.sub(r"<!-- SEEDTABLE -->.*?<!-- /SEEDTABLE -->", "<!-- SEEDTABLE -->\n" + table + "\n<!-- /SEEDTABLE -->", d, flags=re.S)
open(p, "w").write(d)
print(len(rows), "rows")
