#!/usr/bin/env python3
"""Regenerates /verif/MANIFEST.json from tools/claims.json (the per-property claim texts)."""
import json, os, subprocess
here = os.path.dirname(os.path.abspath(__file__))
root = os.path.dirname(here)
claims = json.load(open(os.path.join(here, "claims.json")))
props = [json.loads(l)["id"] for l in open(os.path.join(root, "properties.jsonl"))]
hooks = subprocess.run(["git", "-C", "/repo", "log", "--format=%h %s"], capture_output=True, text=True).stdout.splitlines()
hook_commits = [l.split()[0] for l in hooks if l.split(" ", 1)[1].startswith("verif hooks")]
m = {
    "version": 1,
    "setup_cmd": "cd /verif/govc && GOFLAGS=-mod=mod GOPROXY=off GOSUMDB=off GOTOOLCHAIN=local go build -o /verif/bin/govc .",
    "hooks": {
        "guard": "verif",
        "enable": "go build tag 'verif' (-tags=verif): comment-only contract files zz_contracts_verif.go, one per package; they compile to nothing with or without the tag and are read as text by govc",
        "baseline_off_cmd": "cd /repo && GOFLAGS=-mod=mod GOPROXY=off GOSUMDB=off go test -vet=off -count=1 ./...",
        "source_commits": hook_commits,
        "add_only": True,
    },
    "engines": [{
        "name": "govc",
        "path": "/verif/govc",
        "serves_properties": sorted(claims["claimed"].keys()),
        "kind_free_text": "contract-based deductive verifier for Go written for this task: symbolic execution of go/ssa (x/tools v0.29.0) of the real functions against //@ contracts kept in build-tag-guarded comment files in /repo, verification conditions in SMT-LIB discharged by z3-new 5.1.0 / z3 4.8.12 / cvc5 1.0, counterexample models replayed on the real code with go test -overlay",
    }],
    "checks": [],
    "notes": claims.get("notes", ""),
    "not_applicable": [],
}
for pid in props:
    if pid in claims["claimed"]:
        c = claims["claimed"][pid]
        m["checks"].append({
            "property_id": pid,
            "quick_cmd": f"./check {pid} quick",
            "thorough_cmd": f"./check {pid} thorough",
            "evidence_file": f"/verif/evidence/{pid}.json",
            "replay_cmd_template": "./check replay {path}",
            "engine": "govc",
            "level_claimed": {"category": c.get("category", "proof"), "text": c["text"], "design_ref": c.get("design_ref", "")},
            "level_note": c["note"],
            "technique": c.get("technique", "contract-based deductive verification: weakest-precondition style VCs over go/ssa, SMT-discharged"),
        })
    else:
        m["not_applicable"].append({"property_id": pid, "reason": claims["not_applicable"].get(pid, "not yet brought under contract in this session; no claim is made")})
json.dump(m, open(os.path.join(root, "MANIFEST.json"), "w"), indent=1)
print("claimed:", len(m["checks"]), "not_applicable:", len(m["not_applicable"]))
