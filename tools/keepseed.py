#!/usr/bin/env python3
"""tools/keepseed.py <worktree> <OUT/x dir> <seed id> <caught-by or 'missed'>
Confirms a seeded change in a scratch worktree (demo passes clean, fails with the change, the existing
suite passes with the change) and stores it as /verif/seeded/<id>/."""
import json, os, subprocess, sys, shutil
wt, out, sid, caught = sys.argv[1:5]
env = dict(os.environ, GOFLAGS="-mod=mod", GOPROXY="off", GOSUMDB="off", GOTOOLCHAIN="local")
def run(cmd, **kw):
    r = subprocess.run(cmd, shell=True, cwd=wt, env=env, capture_output=True, text=True, **kw)
    return r.returncode, (r.stdout + r.stderr)[-1500:]
ran = []
meta = json.load(open(os.path.join(out, "meta.json")))
demo = open(os.path.join(out, "demo_test.go")).read()
first = demo.split("\n", 1)[0]
target = first.split("copy to:")[1].strip()
pkgdir = os.path.dirname(target)
test = meta["demo_test_name"]
run("git checkout -- . && git clean -fdq -e OUT")
# hide OUT from ./...
if os.path.isdir(os.path.join(wt, "OUT")) and not os.path.exists(os.path.join(wt, "OUT", "go.mod")):
    open(os.path.join(wt, "OUT", "go.mod"), "w").write("module out\n")
shutil.copy(os.path.join(out, "demo_test.go"), os.path.join(wt, target))
cmd_demo = f"go test -vet=off -count=1 -run '^{test}$' ./{pkgdir}"
rc_clean, o1 = run(cmd_demo); ran.append(cmd_demo + " (clean tree) -> exit %d" % rc_clean)
rc_apply, o = run(f"git apply {os.path.join(out,'patch.diff')}")
assert rc_apply == 0, o
rc_mut, o2 = run(cmd_demo); ran.append(cmd_demo + " (with change) -> exit %d" % rc_mut)
os.remove(os.path.join(wt, target))
rc_suite, o3 = run("go build ./... && go test -vet=off -count=1 ./..."); ran.append("go build ./... && go test -vet=off -count=1 ./... (with change, no demo) -> exit %d" % rc_suite)
run("git checkout -- . && git clean -fdq -e OUT")
ok = rc_clean == 0 and rc_mut != 0 and rc_suite == 0
print(sid, "confirmed" if ok else "NOT CONFIRMED", rc_clean, rc_mut, rc_suite)
if not ok:
    print(o1[-400:], o2[-400:], o3[-600:]); sys.exit(1)
dst = os.path.join("/verif/seeded", sid)
os.makedirs(dst, exist_ok=True)
shutil.copy(os.path.join(out, "patch.diff"), os.path.join(dst, "patch.diff"))
shutil.copy(os.path.join(out, "demo_test.go"), os.path.join(dst, "demo_test.go"))
json.dump({"id": sid, "property": meta["property"], "summary": meta["summary"], "needs": meta["needs"], "files": meta.get("files"),
           "demo_test_name": test, "demo_copy_to": target, "confirmed_by": ran,
           "base_commit": subprocess.run("git -C /repo rev-parse --short HEAD", shell=True, capture_output=True, text=True).stdout.strip(),
           "detected_by": caught}, open(os.path.join(dst, "meta.json"), "w"), indent=1)
