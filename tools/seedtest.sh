#!/bin/bash
# tools/seedtest.sh <patch.diff> <Cxx> [more Cxx...]: apply a seeded change to /repo, run the quick checks, undo it.
set -u
patch="$1"; shift
cd /repo || exit 2
git apply --check "$patch" || { echo "patch does not apply"; exit 2; }
git apply "$patch"
trap 'cd /repo && git apply -R "$patch"' EXIT
for p in "$@"; do
  (cd /verif && VERIF_EVIDENCE_DIR=/verif/.work/seed-evidence timeout 900 ./check "$p" quick 2>&1 | grep -E "VIOLATION|FAILED|BROKEN|quick:" | cut -c1-260)
done
