package main

import (
	"encoding/json"
	"fmt"
	"go/constant"
	"go/token"
	"go/types"
	"os"
	"sort"
	"strings"
	"unicode"

	"golang.org/x/tools/go/ssa"
)

// Production RPC surface (C16): ground instances of Server.Register's contract. Every call of
// jsonrpc2.(*Server).Register / RegisterMethod (or of the Handler interface) in the non-test code of the
// module is located in the SSA; its prefix and allow-list must be literals and its receiver's static
// type known; the registered names are then computed from the receiver's method set exactly as the
// (trusted) jsonrpc2.Methods contract says, and compared with the documented surface in
// /verif/spec/rpc_surface.json, keyed by "<function>|<prefix or rpc name>".

type surfaceResult struct {
	Sites      map[string][]string
	Violations []string
}

func lowerFirst(s string) string {
	if s == "" {
		return s
	}
	r := []rune(s)
	r[0] = unicode.ToLower(r[0])
	return string(r)
}

func isExportedOrBuiltinType(t types.Type) bool {
	for {
		p, ok := t.(*types.Pointer)
		if !ok {
			break
		}
		t = p.Elem()
	}
	if n, ok := types.Unalias(t).(*types.Named); ok {
		return n.Obj().Exported() || n.Obj().Pkg() == nil
	}
	return true // unnamed types have an empty PkgPath
}

// rpcMethods mirrors jsonrpc2.Methods on go/types: exported methods whose parameter types are exported or builtin.
func rpcMethods(e *Engine, recv types.Type) ([]string, string) {
	base := recv
	if p, ok := recv.(*types.Pointer); ok {
		base = p.Elem()
	}
	if n, ok := types.Unalias(base).(*types.Named); ok {
		if !n.Obj().Exported() {
			return nil, "receiver type is not exported"
		}
	}
	ms := e.prog.MethodSets.MethodSet(recv)
	var out []string
	for i := 0; i < ms.Len(); i++ {
		fn, ok := ms.At(i).Obj().(*types.Func)
		if !ok || !fn.Exported() {
			continue
		}
		sig := fn.Type().(*types.Signature)
		okArgs := true
		for j := 0; j < sig.Params().Len(); j++ {
			if !isExportedOrBuiltinType(sig.Params().At(j).Type()) {
				okArgs = false
			}
		}
		if !okArgs {
			continue
		}
		switch sig.Results().Len() {
		case 0, 1:
		case 2:
			if !isErrorType(sig.Results().At(1).Type()) {
				return nil, "method " + fn.Name() + " has unsupported return values"
			}
		default:
			return nil, "method " + fn.Name() + " has unsupported return values"
		}
		out = append(out, fn.Name())
	}
	sort.Strings(out)
	return out, ""
}

func constString(v ssa.Value) (string, bool) {
	c, ok := v.(*ssa.Const)
	if !ok || c.Value == nil || c.Value.Kind() != constant.String {
		return "", false
	}
	return constant.StringVal(c.Value), true
}

func (e *Engine) surface() surfaceResult {
	res := surfaceResult{Sites: map[string][]string{}}
	isRegister := func(c *ssa.CallCommon) (string, bool) {
		if c.IsInvoke() {
			if c.Method.Name() == "Register" || c.Method.Name() == "RegisterMethod" {
				if n, ok := types.Unalias(c.Value.Type()).(*types.Named); ok && n.Obj().Pkg() != nil && n.Obj().Pkg().Path() == e.modPath+"/jsonrpc2" {
					return c.Method.Name(), true
				}
			}
			return "", false
		}
		callee := c.StaticCallee()
		if callee == nil {
			return "", false
		}
		switch callee.String() {
		case "(*" + e.modPath + "/jsonrpc2.Server).Register":
			return "Register", true
		case "(*" + e.modPath + "/jsonrpc2.Server).RegisterMethod":
			return "RegisterMethod", true
		}
		return "", false
	}
	var fns []*ssa.Function
	for _, sp := range e.prog.AllPackages() {
		if !strings.HasPrefix(sp.Pkg.Path(), e.modPath) || strings.Contains(sp.Pkg.Path(), "/internal/") {
			continue
		}
		for _, m := range sp.Members {
			switch x := m.(type) {
			case *ssa.Function:
				fns = append(fns, x)
				fns = append(fns, x.AnonFuncs...)
			case *ssa.Type:
				for _, t := range []types.Type{x.Type(), types.NewPointer(x.Type())} {
					ms := e.prog.MethodSets.MethodSet(t)
					for i := 0; i < ms.Len(); i++ {
						if fn := e.prog.MethodValue(ms.At(i)); fn != nil && fn.Pkg == sp {
							fns = append(fns, fn)
							fns = append(fns, fn.AnonFuncs...)
						}
					}
				}
			}
		}
	}
	seen := map[*ssa.Function]bool{}
	for _, fn := range fns {
		if seen[fn] || fn.Blocks == nil {
			continue
		}
		seen[fn] = true
		if pos := e.prog.Fset.Position(fn.Pos()); strings.HasSuffix(pos.Filename, "_test.go") {
			continue
		}
		if fn.Pkg != nil && fn.Pkg.Pkg.Path() == e.modPath+"/jsonrpc2" {
			continue // the library itself
		}
		for _, b := range fn.Blocks {
			for _, ins := range b.Instrs {
				ci, ok := ins.(ssa.CallInstruction)
				if !ok {
					continue
				}
				c := ci.Common()
				kind, ok := isRegister(c)
				if !ok {
					continue
				}
				where := fmt.Sprintf("%s (%s)", fn.RelString(nil), e.posString(ins.Pos()))
				args := c.Args
				if !c.IsInvoke() {
					args = args[1:] // receiver
				}
				name0, ok0 := constString(args[0])
				if !ok0 {
					res.Violations = append(res.Violations, fmt.Sprintf("registration with a non-literal name/prefix in %s", where))
					continue
				}
				key := shortFn(fn) + "|" + name0
				mi, okR := args[1].(*ssa.MakeInterface)
				if !okR && kind != "RegisterMethod" {
					res.Violations = append(res.Violations, fmt.Sprintf("registration of a receiver of unknown static type in %s", where))
					continue
				}
				if kind == "RegisterMethod" {
					if _, ok := constString(args[2]); !ok {
						res.Violations = append(res.Violations, fmt.Sprintf("RegisterMethod with a non-literal method name in %s", where))
						continue
					}
					res.Sites[key] = append(res.Sites[key], name0)
					continue
				}
				methods, why := rpcMethods(e, mi.X.Type())
				if why != "" {
					res.Violations = append(res.Violations, fmt.Sprintf("%s: %s", where, why))
					continue
				}
				var allow map[string]bool
				if len(args) > 2 {
					if k, isNil := args[2].(*ssa.Const); !(isNil && k.Value == nil) {
						ops, ok := variadicOperands(args[2])
						if !ok {
							res.Violations = append(res.Violations, fmt.Sprintf("registration with a non-literal allow-list in %s", where))
							continue
						}
						allow = map[string]bool{}
						bad := false
						for _, o := range ops {
							sv, ok := constString(o)
							if !ok {
								bad = true
							}
							allow[sv] = true
						}
						if bad {
							res.Violations = append(res.Violations, fmt.Sprintf("registration with a non-literal allow-list in %s", where))
							continue
						}
					}
				}
				for _, m := range methods {
					lf := lowerFirst(m)
					if allow != nil && !allow[lf] {
						continue
					}
					res.Sites[key] = append(res.Sites[key], name0+lf)
				}
				sort.Strings(res.Sites[key])
			}
		}
	}
	return res
}

func shortFn(fn *ssa.Function) string {
	s := fn.String()
	s = strings.ReplaceAll(s, vipnodeMod+"/", "")
	s = strings.ReplaceAll(s, vipnodeMod, "main")
	return s
}

func (e *Engine) posString(p token.Pos) string {
	pp := e.prog.Fset.Position(p)
	f := pp.Filename
	if i := strings.LastIndex(f, "/repo/"); i >= 0 {
		f = f[i+6:]
	}
	return fmt.Sprintf("%s:%d", f, pp.Line)
}

// surfaceCheck compares the computed surface with the documented one.
func (e *Engine) surfaceCheck(specFile string) (sites int, violations []string, computed map[string][]string) {
	res := e.surface()
	violations = append(violations, res.Violations...)
	var want map[string][]string
	data, err := os.ReadFile(specFile)
	if err != nil {
		return len(res.Sites), append(violations, "cannot read "+specFile), res.Sites
	}
	if err := json.Unmarshal(data, &want); err != nil {
		return len(res.Sites), append(violations, "cannot parse "+specFile+": "+err.Error()), res.Sites
	}
	for k, names := range res.Sites {
		w, ok := want[k]
		if !ok {
			violations = append(violations, fmt.Sprintf("undocumented registration %s exposes %v", k, names))
			continue
		}
		sort.Strings(w)
		if strings.Join(w, ",") != strings.Join(names, ",") {
			violations = append(violations, fmt.Sprintf("registration %s exposes %v, documented surface is %v", k, names, w))
		}
	}
	for k := range want {
		if _, ok := res.Sites[k]; !ok {
			violations = append(violations, fmt.Sprintf("documented registration %s was not found in the code (is it made through a wrapper?)", k))
		}
	}
	sort.Strings(violations)
	return len(res.Sites), violations, res.Sites
}
