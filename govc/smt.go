package main

import (
	"bytes"
	"context"
	"fmt"
	"os"
	"os/exec"
	"path/filepath"
	"strings"
	"sync"
	"time"
)

// Term is an SMT-LIB term (as text) with its sort.
type Term struct {
	S    string
	Sort *Sort
	Fn   func(idx *Term) *Term // abstract maps only (Sort.Kind == KFn)
}

func (t *Term) String() string { return t.S }

func T(s *Sort, str string) *Term { return &Term{S: str, Sort: s} }

func Tf(s *Sort, format string, args ...interface{}) *Term {
	return &Term{S: fmt.Sprintf(format, args...), Sort: s}
}

var (
	tTrue  = &Term{S: "true", Sort: sortBool}
	tFalse = &Term{S: "false", Sort: sortBool}
)

func IntLit(n int64) *Term {
	if n < 0 {
		return T(sortInt, fmt.Sprintf("(- %d)", -n))
	}
	return T(sortInt, fmt.Sprintf("%d", n))
}

func BigLit(s string) *Term {
	if strings.HasPrefix(s, "-") {
		return T(sortInt, "(- "+s[1:]+")")
	}
	return T(sortInt, s)
}

func BoolLit(b bool) *Term {
	if b {
		return tTrue
	}
	return tFalse
}

func Not(a *Term) *Term {
	switch a.S {
	case "true":
		return tFalse
	case "false":
		return tTrue
	}
	if strings.HasPrefix(a.S, "(not ") && balanced(a.S[5:len(a.S)-1]) {
		return T(sortBool, a.S[5:len(a.S)-1])
	}
	return T(sortBool, "(not "+a.S+")")
}

func balanced(s string) bool {
	d := 0
	for i := 0; i < len(s); i++ {
		switch s[i] {
		case '(':
			d++
		case ')':
			d--
			if d < 0 {
				return false
			}
			if d == 0 && i != len(s)-1 {
				return false
			}
		case ' ':
			if d == 0 {
				return false
			}
		}
	}
	return d == 0
}

func And(ts ...*Term) *Term {
	var parts []string
	for _, t := range ts {
		if t == nil || t.S == "true" {
			continue
		}
		if t.S == "false" {
			return tFalse
		}
		parts = append(parts, t.S)
	}
	switch len(parts) {
	case 0:
		return tTrue
	case 1:
		return T(sortBool, parts[0])
	}
	return T(sortBool, "(and "+strings.Join(parts, " ")+")")
}

func Or(ts ...*Term) *Term {
	var parts []string
	for _, t := range ts {
		if t == nil || t.S == "false" {
			continue
		}
		if t.S == "true" {
			return tTrue
		}
		parts = append(parts, t.S)
	}
	switch len(parts) {
	case 0:
		return tFalse
	case 1:
		return T(sortBool, parts[0])
	}
	return T(sortBool, "(or "+strings.Join(parts, " ")+")")
}

func Implies(a, b *Term) *Term {
	if a.S == "true" {
		return b
	}
	if a.S == "false" || b.S == "true" {
		return tTrue
	}
	return T(sortBool, "(=> "+a.S+" "+b.S+")")
}

func isStrLit(s string) bool { return s == "str_empty" || strings.HasPrefix(s, "strlit_") }

func Eq(a, b *Term) *Term {
	if a.S == b.S {
		return tTrue
	}
	if (isStrLit(a.S) && isStrLit(b.S)) || (isNumeral(a.S) && isNumeral(b.S)) {
		return tFalse // distinct literals
	}
	if (a.S == "true" && b.S == "false") || (a.S == "false" && b.S == "true") {
		return tFalse
	}
	return T(sortBool, "(= "+a.S+" "+b.S+")")
}

func Ite(c, a, b *Term) *Term {
	if c.S == "true" {
		return a
	}
	if c.S == "false" {
		return b
	}
	if a.S == b.S {
		return a
	}
	return T(a.Sort, "(ite "+c.S+" "+a.S+" "+b.S+")")
}

func Bin(s *Sort, op string, a, b *Term) *Term {
	// constant folding on small numerals keeps path conditions decidable syntactically
	if (op == "+" || op == "-") && isNumeral(a.S) && isNumeral(b.S) && !strings.HasPrefix(a.S, "(") && !strings.HasPrefix(b.S, "(") && len(a.S) < 9 && len(b.S) < 9 {
		var x, y int64
		fmt.Sscanf(a.S, "%d", &x)
		fmt.Sscanf(b.S, "%d", &y)
		if op == "+" {
			return IntLit(x + y)
		}
		return IntLit(x - y)
	}
	if op == "+" && b.S == "0" {
		return a
	}
	return T(s, "("+op+" "+a.S+" "+b.S+")")
}

func Select(arr, idx *Term, elem *Sort) *Term {
	// (select (store a i v) i) = v, syntactically; skip stores at syntactically different numerals
	cur := arr.S
	for {
		a, ok := ctorArgs(cur, "store")
		if !ok || len(a) != 3 {
			break
		}
		if a[1] == idx.S {
			return T(elem, a[2])
		}
		if isNumeral(a[1]) && isNumeral(idx.S) {
			cur = a[0]
			continue
		}
		// two different references that were both produced by an allocation are distinct (each new one lies
		// strictly beyond the allocation frontier that includes all earlier ones)
		if a[1] != idx.S && isAllocRef(a[1]) && isAllocRef(idx.S) {
			cur = a[0]
			continue
		}
		break
	}
	return T(elem, "(select "+cur+" "+idx.S+")")
}

func isNumeral(s string) bool {
	if s == "" {
		return false
	}
	if strings.HasPrefix(s, "(- ") && strings.HasSuffix(s, ")") {
		s = s[3 : len(s)-1]
	}
	for i := 0; i < len(s); i++ {
		if s[i] < '0' || s[i] > '9' {
			return false
		}
	}
	return true
}

func Store(arr, idx, v *Term) *Term {
	return T(arr.Sort, "(store "+arr.S+" "+idx.S+" "+v.S+")")
}

func App(s *Sort, f string, args ...*Term) *Term {
	if len(args) == 0 {
		return T(s, f)
	}
	var b strings.Builder
	b.WriteString("(" + f)
	for _, a := range args {
		b.WriteString(" ")
		b.WriteString(a.S)
	}
	b.WriteString(")")
	return T(s, b.String())
}

// ---------------------------------------------------------------------------
// Solver racing

type SolveResult struct {
	Answer  string // unsat | sat | unknown | timeout | error
	Solver  string
	Seconds float64
	Output  string // raw output of the deciding (or last) solver
	Model   map[string]string
	Tried   []string
}

type solverSpec struct {
	name string
	argv func(file string, timeoutSec int, seed int) []string
}

var solvers = []solverSpec{
	{"z3-new", func(f string, t, seed int) []string {
		return []string{"z3-new", fmt.Sprintf("-T:%d", t), fmt.Sprintf("smt.random_seed=%d", seed), f}
	}},
	{"z3", func(f string, t, seed int) []string {
		return []string{"z3", fmt.Sprintf("-T:%d", t), fmt.Sprintf("smt.random_seed=%d", seed), f}
	}},
	{"cvc5", func(f string, t, seed int) []string {
		return []string{"cvc5", "--incremental", fmt.Sprintf("--tlimit=%d", t*1000), fmt.Sprintf("--seed=%d", seed), f}
	}},
}

func runSolver(sp solverSpec, file string, timeoutSec int, seed int) (answer, output string, secs float64) {
	t0 := time.Now()
	ctx, cancel := context.WithTimeout(context.Background(), time.Duration(timeoutSec+2)*time.Second)
	defer cancel()
	argv := sp.argv(file, timeoutSec, seed)
	cmd := exec.CommandContext(ctx, argv[0], argv[1:]...)
	var out bytes.Buffer
	cmd.Stdout = &out
	cmd.Stderr = &out
	_ = cmd.Run()
	secs = time.Since(t0).Seconds()
	output = out.String()
	first := ""
	for _, ln := range strings.Split(output, "\n") {
		ln = strings.TrimSpace(ln)
		if ln == "" || strings.HasPrefix(ln, "WARNING") || strings.HasPrefix(ln, "(warning") {
			continue
		}
		first = ln
		break
	}
	switch first {
	case "unsat", "sat", "unknown":
		return first, output, secs
	case "timeout":
		return "timeout", output, secs
	}
	if ctx.Err() != nil {
		return "timeout", output, secs
	}
	if strings.Contains(output, "timeout") || strings.Contains(output, "interrupted") {
		return "timeout", output, secs
	}
	return "error", output, secs
}

// cvc5 does not accept some z3-isms; produce a cvc5-compatible copy of the script
// or "" when the script uses something cvc5 cannot take.
func cvc5Script(smt string) string {
	if strings.Contains(smt, "(lambda ") || strings.Contains(smt, "!0") {
		return ""
	}
	s := "(set-option :produce-models true)\n(set-logic ALL)\n" + smt
	return s
}

// solve decides one script. Strategy: z3-new first with the short timeout; when it is
// not definite, z3 4.8 and cvc5 are raced with the full timeout (and z3-new again with it).
func solve(workdir, name, smt string, timeoutSec int, seed int, crossCheck bool) SolveResult {
	base := filepath.Join(workdir, sanitize(name))
	file := base + ".smt2"
	os.WriteFile(file, []byte(smt), 0o644)
	res := SolveResult{}
	quickT := 4
	if timeoutSec < quickT {
		quickT = timeoutSec
	}
	ans, out, secs := runSolver(solvers[0], file, quickT, seed)
	res.Tried = append(res.Tried, fmt.Sprintf("z3-new:%s:%.2fs", ans, secs))
	res.Seconds += secs
	if (ans == "unsat" || ans == "sat") && !crossCheck {
		res.Answer, res.Solver, res.Output = ans, "z3-new", out
		res.Model = parseModel(out)
		return res
	}
	firstAns, firstOut := ans, out
	// race the rest
	type r struct {
		ans, out, solver string
		secs             float64
	}
	ch := make(chan r, 3)
	n := 0
	launch := func(sp solverSpec, f string, t int) {
		n++
		go func() {
			a, o, s := runSolver(sp, f, t, seed)
			ch <- r{a, o, sp.name, s}
		}()
	}
	if ans != "unsat" && ans != "sat" && timeoutSec > quickT {
		launch(solvers[0], file, timeoutSec)
	}
	launch(solvers[1], file, timeoutSec)
	if cs := cvc5Script(smt); cs != "" {
		cfile := base + ".cvc5.smt2"
		os.WriteFile(cfile, []byte(cs), 0o644)
		launch(solvers[2], cfile, timeoutSec)
	}
	definite := ""
	if firstAns == "unsat" || firstAns == "sat" {
		definite = firstAns
		res.Answer, res.Solver, res.Output = firstAns, "z3-new", firstOut
		res.Model = parseModel(firstOut)
	}
	last := r{ans: firstAns, out: firstOut, solver: "z3-new"}
	for i := 0; i < n; i++ {
		x := <-ch
		res.Tried = append(res.Tried, fmt.Sprintf("%s:%s:%.2fs", x.solver, x.ans, x.secs))
		if x.secs > 0 {
			res.Seconds += x.secs
		}
		if x.ans == "unsat" || x.ans == "sat" {
			if definite == "" {
				definite = x.ans
				res.Answer, res.Solver, res.Output = x.ans, x.solver, x.out
				res.Model = parseModel(x.out)
				if !crossCheck {
					// do not wait for the losers; they are bounded by their own timeout
					go func(k int) {
						for j := 0; j < k; j++ {
							<-ch
						}
					}(n - i - 1)
					return res
				}
			} else if x.ans != definite {
				res.Answer = "error"
				res.Output = fmt.Sprintf("SOLVER DISAGREEMENT: %s said %s, %s said %s", res.Solver, definite, x.solver, x.ans)
				return res
			}
		}
		last = x
	}
	if definite == "" {
		res.Answer, res.Solver, res.Output = last.ans, last.solver, last.out
		if res.Answer != "timeout" && res.Answer != "unknown" {
			res.Answer = "error"
		}
		// prefer to report an error output if any solver errored (script bug)
		if firstAns == "error" {
			res.Answer, res.Solver, res.Output = "error", "z3-new", firstOut
		}
		// undecided: quantifier instantiation is sensitive to the solver's random seed, so before the obligation is
		// given up as undischarged it gets a second round with other seeds (any "unsat" is a proof; "sat" a model)
		if res.Answer == "timeout" || res.Answer == "unknown" {
			type rr struct {
				ans, out string
				secs     float64
				seed     int
			}
			const extra = 4
			rch := make(chan rr, extra)
			for k := 1; k <= extra; k++ {
				go func(sd int) {
					a, o, sc := runSolver(solvers[0], file, timeoutSec, sd)
					rch <- rr{a, o, sc, sd}
				}(seed + 7*k)
			}
			for k := 0; k < extra; k++ {
				x := <-rch
				res.Tried = append(res.Tried, fmt.Sprintf("z3-new(seed %d):%s:%.2fs", x.seed, x.ans, x.secs))
				res.Seconds += x.secs
				if (x.ans == "unsat" || x.ans == "sat") && res.Answer != "unsat" && res.Answer != "sat" {
					res.Answer, res.Solver, res.Output = x.ans, "z3-new", x.out
					res.Model = parseModel(x.out)
				}
			}
		}
	}
	return res
}

// parseModel extracts "(get-value (t))" answers: s-expressions of the form ((t v)).
func parseModel(out string) map[string]string {
	m := map[string]string{}
	i := strings.IndexByte(out, '\n')
	if i < 0 {
		return m
	}
	rest := out[i+1:]
	// split top-level s-expressions
	depth, start := 0, -1
	for j := 0; j < len(rest); j++ {
		switch rest[j] {
		case '(':
			if depth == 0 {
				start = j
			}
			depth++
		case ')':
			depth--
			if depth == 0 && start >= 0 {
				sx := strings.Join(strings.Fields(rest[start:j+1]), " ")
				// ((key value))
				if strings.HasPrefix(sx, "((") && strings.HasSuffix(sx, "))") {
					inner := sx[2 : len(sx)-2]
					// key is either an atom or a balanced s-expression
					k := 0
					if len(inner) > 0 && inner[0] == '(' {
						d := 0
						for k = 0; k < len(inner); k++ {
							if inner[k] == '(' {
								d++
							} else if inner[k] == ')' {
								d--
								if d == 0 {
									k++
									break
								}
							}
						}
					} else {
						k = strings.IndexByte(inner, ' ')
						if k < 0 {
							k = len(inner)
						}
					}
					key := strings.TrimSpace(inner[:k])
					val := strings.TrimSpace(inner[k:])
					m[key] = val
				}
				start = -1
			}
		}
	}
	return m
}

func sanitize(s string) string {
	var b strings.Builder
	for _, r := range s {
		switch {
		case r >= 'a' && r <= 'z', r >= 'A' && r <= 'Z', r >= '0' && r <= '9', r == '_', r == '-', r == '.':
			b.WriteRune(r)
		default:
			b.WriteByte('_')
		}
	}
	out := b.String()
	if len(out) > 180 {
		out = out[:180]
	}
	return out
}

var allocRefs sync.Map // names of the references created by newRef

func isAllocRef(s string) bool {
	_, ok := allocRefs.Load(s)
	return ok
}
