package main

import (
	"fmt"
	"os"
	"path/filepath"
	"sort"
	"strconv"
	"strings"
	"unicode"
)

// ---------------------------------------------------------------------------
// Spec expression AST

type Expr interface{}

type (
	EIdent struct{ Name string }
	EInt   struct{ V string }
	EStr   struct{ V string }
	EBool  struct{ V bool }
	ENil   struct{}
	EUnary struct {
		Op string
		X  Expr
	}
	EBinary struct {
		Op   string
		L, R Expr
	}
	ECall struct {
		Fun  string
		Args []Expr
	}
	ESel struct {
		X    Expr
		Name string
	}
	EIndex struct {
		X, I Expr
	}
	EQuant struct {
		Forall bool
		Vars   []QVar
		Body   Expr
	}
	EAssert struct { // x.(T)
		X    Expr
		Type string
	}
)

type QVar struct {
	Name string
	Type string
}

// ---------------------------------------------------------------------------
// Lexer

type tok struct {
	kind string // id, int, str, op, eof
	val  string
	pos  int
}

func lex(src string) ([]tok, error) {
	var toks []tok
	i := 0
	for i < len(src) {
		c := src[i]
		switch {
		case c == ' ' || c == '\t' || c == '\n':
			i++
		case c == '"':
			j := i + 1
			for j < len(src) && src[j] != '"' {
				if src[j] == '\\' {
					j++
				}
				j++
			}
			if j >= len(src) {
				return nil, fmt.Errorf("unterminated string at %d", i)
			}
			v, err := strconv.Unquote(src[i : j+1])
			if err != nil {
				return nil, fmt.Errorf("bad string %s", src[i:j+1])
			}
			toks = append(toks, tok{"str", v, i})
			i = j + 1
		case c >= '0' && c <= '9':
			j := i
			for j < len(src) && (src[j] >= '0' && src[j] <= '9' || src[j] == '_') {
				j++
			}
			toks = append(toks, tok{"int", strings.ReplaceAll(src[i:j], "_", ""), i})
			i = j
		case c == '_' || unicode.IsLetter(rune(c)):
			j := i
			for j < len(src) && (src[j] == '_' || unicode.IsLetter(rune(src[j])) || unicode.IsDigit(rune(src[j]))) {
				j++
			}
			toks = append(toks, tok{"id", src[i:j], i})
			i = j
		default:
			ops := []string{"<==>", "==>", "::", "==", "!=", "<=", ">=", "&&", "||", ".(", "(", ")", "[", "]", "{", "}", ",", ".", "!", "-", "+", "*", "/", "%", "<", ">", "=", ":"}
			matched := false
			for _, op := range ops {
				if strings.HasPrefix(src[i:], op) {
					toks = append(toks, tok{"op", op, i})
					i += len(op)
					matched = true
					break
				}
			}
			if !matched {
				return nil, fmt.Errorf("unexpected character %q at %d in %q", c, i, src)
			}
		}
	}
	toks = append(toks, tok{"eof", "", len(src)})
	return toks, nil
}

// ---------------------------------------------------------------------------
// Parser

type sparser struct {
	toks []tok
	p    int
	src  string
}

func (p *sparser) peek() tok { return p.toks[p.p] }
func (p *sparser) next() tok { t := p.toks[p.p]; p.p++; return t }
func (p *sparser) isOp(v string) bool {
	t := p.peek()
	return t.kind == "op" && t.val == v
}
func (p *sparser) expectOp(v string) error {
	if !p.isOp(v) {
		return fmt.Errorf("expected %q at %d in %q (got %q)", v, p.peek().pos, p.src, p.peek().val)
	}
	p.p++
	return nil
}

func ParseExpr(src string) (Expr, error) {
	toks, err := lex(src)
	if err != nil {
		return nil, err
	}
	p := &sparser{toks: toks, src: src}
	e, err := p.parseExpr()
	if err != nil {
		return nil, err
	}
	if p.peek().kind != "eof" {
		return nil, fmt.Errorf("trailing input at %d in %q", p.peek().pos, src)
	}
	return e, nil
}

func (p *sparser) parseExpr() (Expr, error) { return p.parseIff() }

func (p *sparser) parseIff() (Expr, error) {
	l, err := p.parseImpl()
	if err != nil {
		return nil, err
	}
	for p.isOp("<==>") {
		p.next()
		r, err := p.parseImpl()
		if err != nil {
			return nil, err
		}
		l = &EBinary{"<==>", l, r}
	}
	return l, nil
}

func (p *sparser) parseImpl() (Expr, error) {
	l, err := p.parseOr()
	if err != nil {
		return nil, err
	}
	if p.isOp("==>") {
		p.next()
		r, err := p.parseImpl() // right assoc
		if err != nil {
			return nil, err
		}
		return &EBinary{"==>", l, r}, nil
	}
	return l, nil
}

func (p *sparser) parseOr() (Expr, error) {
	l, err := p.parseAnd()
	if err != nil {
		return nil, err
	}
	for p.isOp("||") {
		p.next()
		r, err := p.parseAnd()
		if err != nil {
			return nil, err
		}
		l = &EBinary{"||", l, r}
	}
	return l, nil
}

func (p *sparser) parseAnd() (Expr, error) {
	l, err := p.parseCmp()
	if err != nil {
		return nil, err
	}
	for p.isOp("&&") {
		p.next()
		r, err := p.parseCmp()
		if err != nil {
			return nil, err
		}
		l = &EBinary{"&&", l, r}
	}
	return l, nil
}

func (p *sparser) parseCmp() (Expr, error) {
	l, err := p.parseAdd()
	if err != nil {
		return nil, err
	}
	for {
		t := p.peek()
		if t.kind == "op" && (t.val == "==" || t.val == "!=" || t.val == "<" || t.val == "<=" || t.val == ">" || t.val == ">=") {
			p.next()
			r, err := p.parseAdd()
			if err != nil {
				return nil, err
			}
			l = &EBinary{t.val, l, r}
			continue
		}
		return l, nil
	}
}

func (p *sparser) parseAdd() (Expr, error) {
	l, err := p.parseMul()
	if err != nil {
		return nil, err
	}
	for p.isOp("+") || p.isOp("-") {
		op := p.next().val
		r, err := p.parseMul()
		if err != nil {
			return nil, err
		}
		l = &EBinary{op, l, r}
	}
	return l, nil
}

func (p *sparser) parseMul() (Expr, error) {
	l, err := p.parseUnary()
	if err != nil {
		return nil, err
	}
	for p.isOp("*") || p.isOp("/") || p.isOp("%") {
		op := p.next().val
		r, err := p.parseUnary()
		if err != nil {
			return nil, err
		}
		l = &EBinary{op, l, r}
	}
	return l, nil
}

func (p *sparser) parseUnary() (Expr, error) {
	if p.isOp("!") || p.isOp("-") || p.isOp("*") {
		op := p.next().val
		x, err := p.parseUnary()
		if err != nil {
			return nil, err
		}
		return &EUnary{op, x}, nil
	}
	return p.parsePostfix()
}

func (p *sparser) parseType() (string, error) {
	// type tokens up to ',' or '::' or ')' at depth 0
	var b strings.Builder
	depth := 0
	for {
		t := p.peek()
		if t.kind == "eof" {
			break
		}
		if t.kind == "op" {
			if depth == 0 && (t.val == "," || t.val == "::" || t.val == ")") {
				break
			}
			if t.val == "[" || t.val == "(" {
				depth++
			}
			if t.val == "]" || t.val == ")" {
				depth--
			}
		}
		b.WriteString(t.val)
		p.next()
	}
	if b.Len() == 0 {
		return "", fmt.Errorf("expected type at %d in %q", p.peek().pos, p.src)
	}
	return b.String(), nil
}

func (p *sparser) parsePostfix() (Expr, error) {
	var x Expr
	t := p.next()
	switch t.kind {
	case "int":
		x = &EInt{t.val}
	case "str":
		x = &EStr{t.val}
	case "id":
		switch t.val {
		case "true":
			x = &EBool{true}
		case "false":
			x = &EBool{false}
		case "nil":
			x = &ENil{}
		case "forall", "exists":
			var vars []QVar
			for {
				n := p.next()
				if n.kind != "id" {
					return nil, fmt.Errorf("expected bound variable name at %d in %q", n.pos, p.src)
				}
				ty, err := p.parseType()
				if err != nil {
					return nil, err
				}
				vars = append(vars, QVar{n.val, ty})
				if p.isOp(",") {
					p.next()
					continue
				}
				break
			}
			if err := p.expectOp("::"); err != nil {
				return nil, err
			}
			body, err := p.parseExpr()
			if err != nil {
				return nil, err
			}
			return &EQuant{Forall: t.val == "forall", Vars: vars, Body: body}, nil
		default:
			x = &EIdent{t.val}
		}
	case "op":
		if t.val == "(" {
			e, err := p.parseExpr()
			if err != nil {
				return nil, err
			}
			if err := p.expectOp(")"); err != nil {
				return nil, err
			}
			x = e
		} else {
			return nil, fmt.Errorf("unexpected %q at %d in %q", t.val, t.pos, p.src)
		}
	default:
		return nil, fmt.Errorf("unexpected end of expression in %q", p.src)
	}
	for {
		switch {
		case p.isOp(".("):
			p.next()
			ty, err := p.parseType()
			if err != nil {
				return nil, err
			}
			if err := p.expectOp(")"); err != nil {
				return nil, err
			}
			x = &EAssert{x, ty}
		case p.isOp("."):
			p.next()
			n := p.next()
			if n.kind != "id" {
				return nil, fmt.Errorf("expected field name at %d in %q", n.pos, p.src)
			}
			x = &ESel{x, n.val}
		case p.isOp("["):
			p.next()
			i, err := p.parseExpr()
			if err != nil {
				return nil, err
			}
			if err := p.expectOp("]"); err != nil {
				return nil, err
			}
			x = &EIndex{x, i}
		case p.isOp("("):
			// call: only on identifiers / qualified identifiers
			name := ""
			switch f := x.(type) {
			case *EIdent:
				name = f.Name
			case *ESel:
				if id, ok := f.X.(*EIdent); ok {
					name = id.Name + "." + f.Name
				}
			}
			if name == "" {
				return nil, fmt.Errorf("call of non-name at %d in %q", p.peek().pos, p.src)
			}
			p.next()
			var args []Expr
			if name == "typeis" {
				a, err := p.parseExpr()
				if err != nil {
					return nil, err
				}
				if err := p.expectOp(","); err != nil {
					return nil, err
				}
				ty, err := p.parseType()
				if err != nil {
					return nil, err
				}
				args = []Expr{a, &EStr{ty}}
			} else {
				for !p.isOp(")") {
					a, err := p.parseExpr()
					if err != nil {
						return nil, err
					}
					args = append(args, a)
					if p.isOp(",") {
						p.next()
					} else {
						break
					}
				}
			}
			if err := p.expectOp(")"); err != nil {
				return nil, err
			}
			x = &ECall{name, args}
		default:
			return x, nil
		}
	}
}

// ---------------------------------------------------------------------------
// Contracts

type Clause struct {
	Label string
	E     Expr
	Src   string
	Props []string // property ids this clause counts for (defaults to the block's)
}

type CallReq struct {
	Pattern string
	Clause  *Clause
}

type LetDef struct {
	Name string
	E    Expr
}

type PureDef struct {
	Pkg    string
	Name   string
	Params []QVar
	Result string
	Body   Expr
	Src    string
}

type GhostDecl struct {
	Pkg   string
	Name  string
	Type  string // spec type expression
	Field bool   // keyed by object reference
}

type Contract struct {
	Kind       string // func | interface | extern
	Target     string // as written
	Pkg        string // import path of the package the contract file belongs to ("" for /verif/assumed)
	File       string
	Params     []string // names for parameters (interface / extern contracts)
	Results    []string
	Requires   []*Clause
	Ensures    []*Clause
	Lemmas     []*Clause // closed statements over the contracts' spec functions, proved once at entry without the preconditions
	Defines    []*Clause // ghost-defining postconditions: assumed at call sites, not checked on the body
	Modifies   []Expr
	ModSet     bool // a modifies clause was given ("modifies nothing" -> ModSet && len(Modifies)==0)
	LoopInv    map[int][]*Clause
	Lets       []LetDef
	Witness    []LetDef
	CallReqs   []CallReq // caller-side requirements at matching call sites
	SendReqs   []CallReq // requirements on values sent on a named channel (Pattern = channel variable name; "sent" is the value)
	RecvInvs   []CallReq // what may be assumed about values received from a named channel ("v" is the value)
	Props      []string
	Trusted    bool
	Safety     bool
	Inline     bool // callers inline the body instead of using the contract
	Opaque     bool // callers see an uninterpreted (pure, deterministic) function of the arguments
	ByRef      bool // opaque: pointer arguments are used by identity (their pointees are immutable)
	Atomic     string
	Implements []string
	ImplExcept map[string]bool // "<iface contract>.<label>" clauses this implementation does not claim
	Notes      []string
}

type SpecFile struct {
	Pkg          string
	Contracts    []*Contract
	Ghosts       []*GhostDecl
	Pures        []*PureDef
	Guarded      []GuardDecl
	Measures     []MeasureDecl
	Abstractions map[string]map[string]*AbsDef // type name -> field -> definition
}

// AbsDef: how an implementation type realises one abstract (ghost) field of the interface contracts.
type AbsDef struct {
	Field  string
	Param  string // bound index variable for map-like fields ("" for scalars)
	Param2 string // second index for nested maps
	Body   Expr
	Src    string
}

type GuardDecl struct {
	Type  string // struct type name, e.g. memoryStore
	Field string
	Mutex string // field name of the mutex in the same struct
}

type MeasureDecl struct {
	Pkg     string
	Name    string // name of the sum ghost
	MapType string // Go map type expression
	Body    Expr   // expression over v (the map value)
	Src     string
}

// specLines extracts the //@ lines of a file joined with their continuation lines.
func specLines(path string) ([]string, error) {
	data, err := os.ReadFile(path)
	if err != nil {
		return nil, err
	}
	var out []string
	for _, ln := range strings.Split(string(data), "\n") {
		t := strings.TrimLeft(ln, " \t")
		if !strings.HasPrefix(t, "//@") {
			continue
		}
		body := t[3:]
		if i := strings.Index(body, " // "); i >= 0 { // trailing comment
			body = body[:i]
		}
		if strings.TrimSpace(body) == "" {
			continue
		}
		// continuation: more than one leading space
		if strings.HasPrefix(body, "  ") || strings.HasPrefix(body, "\t") {
			if len(out) > 0 {
				out[len(out)-1] += " " + strings.TrimSpace(body)
				continue
			}
		}
		out = append(out, strings.TrimSpace(body))
	}
	return out, nil
}

func splitLabel(s string) (label, rest string) {
	s = strings.TrimSpace(s)
	if strings.HasPrefix(s, "[") {
		if i := strings.Index(s, "]"); i > 0 {
			return strings.TrimSpace(s[1:i]), strings.TrimSpace(s[i+1:])
		}
	}
	return "", s
}

func parseNameList(s string) []string {
	s = strings.TrimSpace(s)
	s = strings.TrimPrefix(s, "(")
	s = strings.TrimSuffix(s, ")")
	if strings.TrimSpace(s) == "" {
		return nil
	}
	var out []string
	for _, p := range strings.Split(s, ",") {
		out = append(out, strings.TrimSpace(p))
	}
	return out
}

// parseTargetSig parses "name(p1, p2) (r1, r2)" -> name, params, results
func parseTargetSig(s string) (string, []string, []string) {
	s = strings.TrimSpace(s)
	// receiver-qualified function names start with "(" e.g. (*T).M
	start := 0
	if strings.HasPrefix(s, "(") {
		start = strings.Index(s, ")") + 1
	}
	i := strings.Index(s[start:], "(")
	if i < 0 {
		return s, nil, nil
	}
	i += start
	name := strings.TrimSpace(s[:i])
	j := strings.Index(s[i:], ")")
	params := parseNameList(s[i : i+j+1])
	rest := strings.TrimSpace(s[i+j+1:])
	var results []string
	if rest != "" {
		results = parseNameList(rest)
	}
	return name, params, results
}

func ParseSpecFile(path, pkg string) (*SpecFile, error) {
	lines, err := specLines(path)
	if err != nil {
		return nil, err
	}
	sf := &SpecFile{Pkg: pkg, Abstractions: map[string]map[string]*AbsDef{}}
	var cur *Contract
	curAbs := ""
	fail := func(ln string, err error) error {
		return fmt.Errorf("%s: in %q: %v", path, ln, err)
	}
	for _, ln := range lines {
		kw := ln
		rest := ""
		if i := strings.IndexAny(ln, " \t"); i > 0 {
			kw, rest = ln[:i], strings.TrimSpace(ln[i+1:])
		}
		switch kw {
		case "func", "interface", "extern", "funcfield":
			name, params, results := parseTargetSig(rest)
			cur = &Contract{Kind: kw, Target: name, Pkg: pkg, File: path, Params: params, Results: results, LoopInv: map[int][]*Clause{}}
			sf.Contracts = append(sf.Contracts, cur)
		case "abstraction":
			curAbs = strings.TrimPrefix(strings.TrimSpace(rest), "*")
			if sf.Abstractions[curAbs] == nil {
				sf.Abstractions[curAbs] = map[string]*AbsDef{}
			}
		case "absdef":
			if curAbs == "" {
				return nil, fail(ln, fmt.Errorf("absdef outside of an abstraction block"))
			}
			i := strings.Index(rest, " = ")
			if i < 0 {
				return nil, fail(ln, fmt.Errorf("expected: absdef name[k] = expr"))
			}
			head, body := strings.TrimSpace(rest[:i]), rest[i+3:]
			ad := &AbsDef{Field: head, Src: body}
			if j := strings.Index(head, "["); j > 0 && strings.HasSuffix(head, "]") {
				ad.Field = head[:j]
				inner := head[j+1 : len(head)-1]
				if k := strings.Index(inner, "]["); k > 0 {
					ad.Param, ad.Param2 = inner[:k], inner[k+2:]
				} else {
					ad.Param = inner
				}
			}
			e, err := ParseExpr(body)
			if err != nil {
				return nil, fail(ln, err)
			}
			ad.Body = e
			sf.Abstractions[curAbs][ad.Field] = ad
		case "ghost":
			// ghost var name type | ghost field name type
			parts := strings.Fields(rest)
			if len(parts) < 3 || (parts[0] != "var" && parts[0] != "field") {
				return nil, fail(ln, fmt.Errorf("expected: ghost var|field <name> <type>"))
			}
			sf.Ghosts = append(sf.Ghosts, &GhostDecl{Pkg: pkg, Name: parts[1], Type: strings.Join(parts[2:], ""), Field: parts[0] == "field"})
		case "pure":
			// pure name(a T, b U) R = expr
			eq := strings.Index(rest, " = ")
			if eq < 0 {
				return nil, fail(ln, fmt.Errorf("expected '=' in pure definition"))
			}
			head, body := rest[:eq], rest[eq+3:]
			lp := strings.Index(head, "(")
			rp := strings.LastIndex(head, ")")
			if lp < 0 || rp < lp {
				return nil, fail(ln, fmt.Errorf("bad pure head"))
			}
			pd := &PureDef{Pkg: pkg, Name: strings.TrimSpace(head[:lp]), Result: strings.TrimSpace(head[rp+1:]), Src: body}
			if ps := strings.TrimSpace(head[lp+1 : rp]); ps != "" {
				for _, p := range strings.Split(ps, ",") {
					f := strings.Fields(p)
					if len(f) < 2 {
						return nil, fail(ln, fmt.Errorf("bad pure parameter %q", p))
					}
					pd.Params = append(pd.Params, QVar{f[0], strings.Join(f[1:], "")})
				}
			}
			e, err := ParseExpr(body)
			if err != nil {
				return nil, fail(ln, err)
			}
			pd.Body = e
			sf.Pures = append(sf.Pures, pd)
		case "atomic_only":
			// atomic_only Type.field : the field is only ever accessed through sync/atomic
			parts := strings.Fields(rest)
			if len(parts) != 1 || !strings.Contains(parts[0], ".") {
				return nil, fail(ln, fmt.Errorf("expected: atomic_only Type.field"))
			}
			i := strings.LastIndex(parts[0], ".")
			sf.Guarded = append(sf.Guarded, GuardDecl{Type: parts[0][:i], Field: parts[0][i+1:], Mutex: "<atomic>"})
		case "guarded_by":
			// guarded_by Type.field mutexfield
			parts := strings.Fields(rest)
			if len(parts) != 2 || !strings.Contains(parts[0], ".") {
				return nil, fail(ln, fmt.Errorf("expected: guarded_by Type.field mutex"))
			}
			i := strings.LastIndex(parts[0], ".")
			sf.Guarded = append(sf.Guarded, GuardDecl{Type: parts[0][:i], Field: parts[0][i+1:], Mutex: parts[1]})
		case "measure":
			// measure name over <maptype> : expr(v)
			i := strings.Index(rest, " over ")
			j := strings.Index(rest, " : ")
			if i < 0 || j < i {
				return nil, fail(ln, fmt.Errorf("expected: measure <name> over <maptype> : <expr>"))
			}
			e, err := ParseExpr(rest[j+3:])
			if err != nil {
				return nil, fail(ln, err)
			}
			sf.Measures = append(sf.Measures, MeasureDecl{Pkg: pkg, Name: strings.TrimSpace(rest[:i]), MapType: strings.ReplaceAll(strings.TrimSpace(rest[i+6:j]), " ", ""), Body: e, Src: rest[j+3:]})
		default:
			if cur == nil {
				return nil, fail(ln, fmt.Errorf("clause outside of a func/interface/extern block"))
			}
			switch kw {
			case "requires":
				label, src := splitLabel(rest)
				e, err := ParseExpr(src)
				if err != nil {
					return nil, fail(ln, err)
				}
				cur.Requires = append(cur.Requires, &Clause{Label: label, E: e, Src: src})
			case "ensures":
				label, src := splitLabel(rest)
				props := []string(nil)
				// optional "{C01 C02}" after the label
				if strings.HasPrefix(src, "{") {
					if i := strings.Index(src, "}"); i > 0 {
						props = strings.Fields(src[1:i])
						src = strings.TrimSpace(src[i+1:])
					}
				}
				e, err := ParseExpr(src)
				if err != nil {
					return nil, fail(ln, err)
				}
				if label == "" {
					label = fmt.Sprintf("e%d", len(cur.Ensures))
				}
				cur.Ensures = append(cur.Ensures, &Clause{Label: label, E: e, Src: src, Props: props})
			case "lemma":
				label, src := splitLabel(rest)
				props := []string(nil)
				if strings.HasPrefix(src, "{") {
					if i := strings.Index(src, "}"); i > 0 {
						props = strings.Fields(src[1:i])
						src = strings.TrimSpace(src[i+1:])
					}
				}
				e, err := ParseExpr(src)
				if err != nil {
					return nil, fail(ln, err)
				}
				if label == "" {
					label = fmt.Sprintf("l%d", len(cur.Lemmas))
				}
				cur.Lemmas = append(cur.Lemmas, &Clause{Label: label, E: e, Src: src, Props: props})
			case "defines":
				label, src := splitLabel(rest)
				e, err := ParseExpr(src)
				if err != nil {
					return nil, fail(ln, err)
				}
				cur.Defines = append(cur.Defines, &Clause{Label: label, E: e, Src: src})
			case "modifies":
				cur.ModSet = true
				if rest == "nothing" {
					break
				}
				for _, part := range splitTop(rest, ',') {
					e, err := ParseExpr(part)
					if err != nil {
						return nil, fail(ln, err)
					}
					cur.Modifies = append(cur.Modifies, e)
				}
			case "loop":
				// loop N invariant [label] expr
				parts := strings.SplitN(rest, " ", 3)
				if len(parts) < 3 || parts[1] != "invariant" {
					return nil, fail(ln, fmt.Errorf("expected: loop N invariant <expr>"))
				}
				n, err := strconv.Atoi(parts[0])
				if err != nil {
					return nil, fail(ln, err)
				}
				label, src := splitLabel(parts[2])
				e, err := ParseExpr(src)
				if err != nil {
					return nil, fail(ln, err)
				}
				if label == "" {
					label = fmt.Sprintf("i%d", len(cur.LoopInv[n]))
				}
				cur.LoopInv[n] = append(cur.LoopInv[n], &Clause{Label: label, E: e, Src: src})
			case "let":
				i := strings.Index(rest, "=")
				if i < 0 {
					return nil, fail(ln, fmt.Errorf("expected: let name = expr"))
				}
				e, err := ParseExpr(rest[i+1:])
				if err != nil {
					return nil, fail(ln, err)
				}
				cur.Lets = append(cur.Lets, LetDef{strings.TrimSpace(rest[:i]), e})
			case "callreq":
				// callreq <pattern> [label] {props} : <expr>  -- must hold in the caller's state at every call whose callee name contains <pattern>
				i := strings.Index(rest, " : ")
				if i < 0 {
					return nil, fail(ln, fmt.Errorf("expected: callreq <pattern> [label] : <expr>"))
				}
				head := strings.Fields(rest[:i])
				if len(head) == 0 {
					return nil, fail(ln, fmt.Errorf("callreq: missing pattern"))
				}
				label, _ := splitLabel(strings.Join(head[1:], " "))
				var props []string
				if j := strings.Index(rest[:i], "{"); j >= 0 {
					if k := strings.Index(rest[:i], "}"); k > j {
						props = strings.Fields(rest[j+1 : k])
					}
				}
				e, err := ParseExpr(rest[i+3:])
				if err != nil {
					return nil, fail(ln, err)
				}
				if label == "" {
					label = fmt.Sprintf("c%d", len(cur.CallReqs))
				}
				cur.CallReqs = append(cur.CallReqs, CallReq{Pattern: head[0], Clause: &Clause{Label: label, E: e, Src: rest[i+3:], Props: props}})
			case "sendreq", "recvinv":
				// sendreq <chan> [label] {props} : <expr over sent>    /    recvinv <chan> [label] : <expr over v>
				i := strings.Index(rest, " : ")
				if i < 0 {
					return nil, fail(ln, fmt.Errorf("expected: %s <chan> [label] : <expr>", kw))
				}
				head := strings.Fields(rest[:i])
				if len(head) == 0 {
					return nil, fail(ln, fmt.Errorf("%s: missing channel name", kw))
				}
				label, _ := splitLabel(strings.Join(head[1:], " "))
				var props []string
				if j := strings.Index(rest[:i], "{"); j >= 0 {
					if k := strings.Index(rest[:i], "}"); k > j {
						props = strings.Fields(rest[j+1 : k])
					}
				}
				e, err := ParseExpr(rest[i+3:])
				if err != nil {
					return nil, fail(ln, err)
				}
				if label == "" {
					label = head[0]
				}
				cr := CallReq{Pattern: head[0], Clause: &Clause{Label: label, E: e, Src: rest[i+3:], Props: props}}
				if kw == "sendreq" {
					cur.SendReqs = append(cur.SendReqs, cr)
				} else {
					cur.RecvInvs = append(cur.RecvInvs, cr)
				}
			case "witness":
				i := strings.Index(rest, "=")
				if i < 0 {
					return nil, fail(ln, fmt.Errorf("expected: witness name = expr"))
				}
				e, err := ParseExpr(rest[i+1:])
				if err != nil {
					return nil, fail(ln, err)
				}
				cur.Witness = append(cur.Witness, LetDef{strings.TrimSpace(rest[:i]), e})
			case "property":
				cur.Props = append(cur.Props, strings.Fields(rest)...)
			case "trusted":
				cur.Trusted = true
				if rest != "" {
					cur.Notes = append(cur.Notes, rest)
				}
			case "inline":
				cur.Inline = true
			case "opaque":
				cur.Opaque = true
				if strings.HasPrefix(rest, "byref") {
					cur.ByRef = true
				}
			case "safety":
				cur.Safety = rest != "off"
			case "atomic":
				cur.Atomic = rest
			case "implements":
				// implements <iface contract> [except <label> <label> ...]: the excepted interface clauses are not
				// claimed for this implementation (recorded, and listed in the evidence as not covered)
				fl := strings.Fields(rest)
				for i, w := range fl {
					if w == "except" {
						if cur.ImplExcept == nil {
							cur.ImplExcept = map[string]bool{}
						}
						for _, l := range fl[i+1:] {
							cur.ImplExcept[fl[0]+"."+strings.Trim(l, "[],")] = true
						}
						fl = fl[:i]
						break
					}
				}
				cur.Implements = append(cur.Implements, fl...)
			case "note":
				cur.Notes = append(cur.Notes, rest)
			default:
				return nil, fail(ln, fmt.Errorf("unknown clause kind %q", kw))
			}
		}
	}
	return sf, nil
}

func splitTop(s string, sep byte) []string {
	var out []string
	depth := 0
	start := 0
	for i := 0; i < len(s); i++ {
		switch s[i] {
		case '(', '[':
			depth++
		case ')', ']':
			depth--
		default:
			if s[i] == sep && depth == 0 {
				out = append(out, strings.TrimSpace(s[start:i]))
				start = i + 1
			}
		}
	}
	out = append(out, strings.TrimSpace(s[start:]))
	return out
}

// SpecDB: all loaded contracts
type SpecDB struct {
	Files        []*SpecFile
	ByFunc       map[string]*Contract // "<pkgpath>.<RelString>"
	ByIface      map[string]*Contract // "<pkgpath>.<Iface>.<Method>"
	ByExtern     map[string]*Contract // "<pkgpath>.<name>" or "(<*pkg.T>).M" full ssa String()
	ByField      map[string]*Contract // "<pkgpath>.<Type>.<Field>": contract of a function-valued struct field
	Ghosts       map[string]*GhostDecl
	Pures        map[string]*PureDef
	Guarded      []GuardDeclQ
	Measures     []MeasureDecl
	Abstractions map[string]map[string]*AbsDef // "<pkgpath>.<Type>" -> field -> def
}

type GuardDeclQ struct {
	Pkg string
	GuardDecl
}

func NewSpecDB() *SpecDB {
	return &SpecDB{ByFunc: map[string]*Contract{}, ByIface: map[string]*Contract{}, ByExtern: map[string]*Contract{}, ByField: map[string]*Contract{}, Abstractions: map[string]map[string]*AbsDef{}, Ghosts: map[string]*GhostDecl{}, Pures: map[string]*PureDef{}}
}

func (db *SpecDB) Add(sf *SpecFile) error {
	db.Files = append(db.Files, sf)
	for _, c := range sf.Contracts {
		switch c.Kind {
		case "func":
			key := sf.Pkg + "." + c.Target
			if _, dup := db.ByFunc[key]; dup {
				return fmt.Errorf("duplicate contract for %s", key)
			}
			db.ByFunc[key] = c
		case "interface":
			key := c.Target
			if _, dup := db.ByIface[key]; dup {
				return fmt.Errorf("duplicate interface contract for %s", key)
			}
			db.ByIface[key] = c
		case "funcfield":
			db.ByField[sf.Pkg+"."+c.Target] = c
		case "extern":
			if _, dup := db.ByExtern[c.Target]; dup {
				return fmt.Errorf("duplicate extern contract for %s", c.Target)
			}
			db.ByExtern[c.Target] = c
		}
	}
	for _, g := range sf.Ghosts {
		if _, dup := db.Ghosts[g.Name]; dup {
			return fmt.Errorf("duplicate ghost %s", g.Name)
		}
		db.Ghosts[g.Name] = g
	}
	for _, p := range sf.Pures {
		if _, dup := db.Pures[p.Name]; dup {
			return fmt.Errorf("duplicate pure %s", p.Name)
		}
		db.Pures[p.Name] = p
	}
	for _, g := range sf.Guarded {
		db.Guarded = append(db.Guarded, GuardDeclQ{sf.Pkg, g})
	}
	db.Measures = append(db.Measures, sf.Measures...)
	for tn, defs := range sf.Abstractions {
		db.Abstractions[sf.Pkg+"."+tn] = defs
	}
	return nil
}

// LoadSpecs loads /verif/assumed/*.spec and every zz_contracts_verif.go under repo.
func LoadSpecs(repo, assumedDir, modPath string) (*SpecDB, error) {
	db := NewSpecDB()
	as, _ := filepath.Glob(filepath.Join(assumedDir, "*.spec"))
	sort.Strings(as)
	for _, f := range as {
		sf, err := ParseSpecFile(f, "")
		if err != nil {
			return nil, err
		}
		if err := db.Add(sf); err != nil {
			return nil, fmt.Errorf("%s: %v", f, err)
		}
	}
	var files []string
	filepath.Walk(repo, func(p string, info os.FileInfo, err error) error {
		if err != nil {
			return nil
		}
		if info.IsDir() && (info.Name() == ".git" || info.Name() == "vendor") {
			return filepath.SkipDir
		}
		if !info.IsDir() && info.Name() == "zz_contracts_verif.go" {
			files = append(files, p)
		}
		return nil
	})
	sort.Strings(files)
	for _, f := range files {
		rel, _ := filepath.Rel(repo, filepath.Dir(f))
		pkg := modPath
		if rel != "." {
			pkg = modPath + "/" + filepath.ToSlash(rel)
		}
		sf, err := ParseSpecFile(f, pkg)
		if err != nil {
			return nil, err
		}
		if err := db.Add(sf); err != nil {
			return nil, fmt.Errorf("%s: %v", f, err)
		}
	}
	return db, nil
}
