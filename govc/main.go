package main

import (
	"encoding/json"
	"flag"
	"fmt"
	"os"
	"strings"
)

func main() {
	if len(os.Args) < 2 {
		fmt.Fprintln(os.Stderr, "usage: govc verify|check ...")
		os.Exit(2)
	}
	switch os.Args[1] {
	case "verify":
		cmdVerify(os.Args[2:])
	case "check":
		cmdCheck(os.Args[2:])
	case "surface":
		e, err := NewEngine(envOr("VERIF_REPO", "/repo"), "/verif/assumed", []string{"./..."})
		if err != nil {
			fmt.Fprintln(os.Stderr, err)
			os.Exit(2)
		}
		n, v, sites := e.surfaceCheck("/verif/spec/rpc_surface.json")
		out, _ := json.MarshalIndent(sites, "", " ")
		fmt.Println(string(out))
		fmt.Println(n, "sites;", len(v), "violations")
		for _, x := range v {
			fmt.Println(" -", x)
		}
	default:
		fmt.Fprintln(os.Stderr, "unknown command", os.Args[1])
		os.Exit(2)
	}
}

func envOr(k, d string) string {
	if v := os.Getenv(k); v != "" {
		return v
	}
	return d
}

// cmdVerify: development aid. govc verify [-safety] [-dump] <pkg pattern> <func key suffix>...
func cmdVerify(args []string) {
	fs := flag.NewFlagSet("verify", flag.ExitOnError)
	safety := fs.Bool("safety", false, "emit safety obligations")
	dump := fs.Bool("dump", false, "keep SMT files and print their paths")
	timeout := fs.Int("timeout", 10, "solver timeout")
	depth := fs.Int("depth", 3, "inline depth")
	fs.Parse(args)
	rest := fs.Args()
	repo := envOr("VERIF_REPO", "/repo")
	e, err := NewEngine(repo, envOr("VERIF_ASSUMED", "/verif/assumed"), []string{rest[0]})
	if err != nil {
		fmt.Fprintln(os.Stderr, err)
		os.Exit(2)
	}
	fmt.Printf("loaded in %.1fs\n", e.loadSecs)
	work := "/verif/.work/dev"
	os.MkdirAll(work, 0o755)
	opt := Options{Tier: "quick", Timeout: *timeout, InlineDepth: *depth, MaxPaths: 4096, WorkDir: work, Safety: *safety}
	for _, key := range rest[1:] {
		full := key
		if !strings.HasPrefix(key, vipnodeMod) {
			full = vipnodeMod + "/" + key
		}
		fn := e.FindFunc(full)
		if fn == nil {
			fmt.Println("NOT FOUND:", full)
			continue
		}
		ct := e.contractOf(fn)
		vc := e.Verify(fn, ct, nil, opt)
		if vc.refused != "" {
			fmt.Println("REFUSED:", fn, vc.refused)
		}
		Discharge(vc.obls, opt)
		ok, bad := 0, 0
		for _, o := range vc.obls {
			good := o.Result.Answer == "unsat"
			if o.MustFail {
				good = o.Result.Answer == "sat" || o.Result.Answer == "unknown" || o.Result.Answer == "timeout"
			}
			if good {
				ok++
				continue
			}
			bad++
			fmt.Printf("FAIL %s path=%d at %s: %s (%s) %v\n", o.Name, o.Path, o.Pos, o.Result.Answer, o.Result.Solver, o.Result.Tried)
			if *dump {
				fmt.Printf("     trace: %s\n     model: %v\n", strings.Join(o.Trace, " "), o.Result.Model)
				if o.Result.Answer == "error" {
					fmt.Println("     output:", abbreviate(o.Result.Output, 600))
				}
			}
		}
		fmt.Printf("%s: %d obligations, %d ok, %d failed, %d paths\n", fn, len(vc.obls), ok, bad, vc.npaths)
		for _, n := range sortedKeys(vc.notes) {
			fmt.Println("  note:", n)
		}
		for _, n := range sortedKeys(vc.used) {
			fmt.Println("  used:", n)
		}
	}
	for _, m := range e.specErrors {
		fmt.Println("SPEC ERROR:", m)
	}
}
