package main

import (
	"bytes"
	"context"
	"encoding/json"
	"fmt"
	"os"
	"os/exec"
	"path/filepath"
	"strings"
	"text/template"
	"time"
)

// smtInt converts an SMT integer value ("5", "(- 5)") to Go syntax.
func smtInt(v string) string {
	v = strings.TrimSpace(v)
	if strings.HasPrefix(v, "(-") {
		return "-" + strings.TrimSpace(strings.TrimSuffix(strings.TrimPrefix(v, "(-"), ")"))
	}
	if v == "" {
		return "0"
	}
	return v
}

func probeTemplate(verifDir, fn string) bool {
	src, err := os.ReadFile(filepath.Join(verifDir, "replay", "templates", sanitize(fn)+".go.tmpl"))
	if err != nil {
		return false
	}
	head := string(src)
	if len(head) > 400 {
		head = head[:400]
	}
	return strings.Contains(head, "\n// probe:")
}

// runReplayTemplate instantiates the replay template of the obligation's function (if any)
// with the model and runs it against the working tree through go test -overlay.
func runReplayTemplate(e *Engine, verifDir, base string, o *Obligation, model map[string]string) (reproduced bool, output string, ran bool) {
	tmplPath := filepath.Join(verifDir, "replay", "templates", sanitize(o.Func)+".go.tmpl")
	src, err := os.ReadFile(tmplPath)
	if err != nil {
		return false, "", false
	}
	// first line: // dir: <package dir relative to the repo>
	first := strings.SplitN(string(src), "\n", 2)[0]
	dir := strings.TrimSpace(strings.TrimPrefix(first, "// dir:"))
	funcs := template.FuncMap{
		"int": func(label string) string {
			v, ok := model[label]
			if !ok {
				return "0"
			}
			return smtInt(v)
		},
		"bool": func(label string) string {
			if model[label] == "true" {
				return "true"
			}
			return "false"
		},
		"has":   func(label string) bool { _, ok := model[label]; return ok },
		"raw":   func(label string) string { return model[label] },
		"label": func() string { return o.Kind },
	}
	t, err := template.New("replay").Funcs(funcs).Parse(string(src))
	if err != nil {
		return false, "template error: " + err.Error(), true
	}
	var buf bytes.Buffer
	if err := t.Execute(&buf, map[string]interface{}{"Model": model, "Obligation": o.Name, "Kind": o.Kind}); err != nil {
		return false, "template error: " + err.Error(), true
	}
	testFile := base + "_replay_test.go"
	os.WriteFile(testFile, buf.Bytes(), 0o644)
	repoAbs, _ := filepath.Abs(e.repoDir)
	ov := map[string]interface{}{"Replace": map[string]string{filepath.Join(repoAbs, dir, "zz_verif_replay_test.go"): testFile}}
	ovData, _ := json.Marshal(ov)
	ovFile := base + "_overlay.json"
	os.WriteFile(ovFile, ovData, 0o644)
	ctx, cancel := context.WithTimeout(context.Background(), 180*time.Second)
	defer cancel()
	cmd := exec.CommandContext(ctx, "go", "test", "-overlay", ovFile, "-vet=off", "-count=1", "-timeout", "60s", "-run", "TestVerifReplay", "./"+dir)
	cmd.Dir = repoAbs
	cmd.Env = append(os.Environ(), "GOFLAGS=-mod=mod", "GOPROXY=off", "GOSUMDB=off", "GOTOOLCHAIN=local")
	out, _ := cmd.CombinedOutput()
	output = fmt.Sprintf("$ (cd %s && go test -overlay %s -vet=off -count=1 -timeout 60s -run TestVerifReplay ./%s)\n%s", repoAbs, ovFile, dir, out)
	return reproducedFor(string(out), o.Kind), output, true
}

// reproducedFor: the replay printed a VERIF-REPRODUCED line for the failing clause. Probe templates tag their lines
// with the clause label in brackets ("VERIF-REPRODUCED: [dialable] ..."); an untagged line counts for any clause.
func reproducedFor(out, kind string) bool {
	label := ""
	if i := strings.Index(kind, "["); i >= 0 {
		if j := strings.Index(kind[i:], "]"); j > 0 {
			label = kind[i+1 : i+j]
		}
	}
	short := label
	if k := strings.LastIndex(label, "."); k >= 0 {
		short = label[k+1:]
	}
	for _, ln := range strings.Split(out, "\n") {
		idx := strings.Index(ln, "VERIF-REPRODUCED")
		if idx < 0 {
			continue
		}
		rest := ln[idx:]
		if !strings.Contains(rest, "[") || label == "" {
			return true
		}
		if strings.Contains(rest, "["+label+"]") || strings.Contains(rest, "["+short+"]") {
			return true
		}
	}
	return false
}
