package main

import (
	"fmt"
	"go/ast"
	"go/constant"
	"go/token"
	"go/types"
	"os"
	"path/filepath"
	"sort"
	"strconv"
	"strings"

	"golang.org/x/tools/go/ssa"
)

type refusal struct{ msg string }

func refuse(format string, args ...interface{}) {
	panic(refusal{fmt.Sprintf(format, args...)})
}

// ---------------------------------------------------------------------------
// loops

type loopInfo struct {
	header   *ssa.BasicBlock
	ordinal  int
	body     map[*ssa.BasicBlock]bool
	lo, hi   token.Pos
	spanDone bool
}

func (e *Engine) loopsOf(fn *ssa.Function) map[*ssa.BasicBlock]*loopInfo {
	if l, ok := e.loops[fn]; ok {
		return l
	}
	res := map[*ssa.BasicBlock]*loopInfo{}
	for _, b := range fn.Blocks {
		for _, p := range b.Preds {
			if b.Dominates(p) { // back edge p -> b
				li := res[b]
				if li == nil {
					li = &loopInfo{header: b, body: map[*ssa.BasicBlock]bool{b: true}}
					res[b] = li
				}
				// blocks reaching p without passing b
				stack := []*ssa.BasicBlock{p}
				for len(stack) > 0 {
					x := stack[len(stack)-1]
					stack = stack[:len(stack)-1]
					if li.body[x] {
						continue
					}
					li.body[x] = true
					stack = append(stack, x.Preds...)
				}
			}
		}
	}
	var hs []*ssa.BasicBlock
	for h := range res {
		hs = append(hs, h)
	}
	sort.Slice(hs, func(i, j int) bool { return hs[i].Index < hs[j].Index })
	for i, h := range hs {
		res[h].ordinal = i
	}
	e.loops[fn] = res
	return res
}

// ---------------------------------------------------------------------------
// values

func (vc *VC) posOf(p token.Pos) string {
	if !p.IsValid() {
		return "?"
	}
	pp := vc.eng.prog.Fset.Position(p)
	f := pp.Filename
	if i := strings.Index(f, "/repo/"); i >= 0 {
		f = f[i+6:]
	}
	if vc.eng.repoDir != "" {
		f = strings.TrimPrefix(f, vc.eng.repoDir+"/")
	}
	return fmt.Sprintf("%s:%d", f, pp.Line)
}

// typeFacts assumes what every bit-valid value of a Go type satisfies in the model. References
// never point beyond the allocation frontier ("no dangling references"): this is what makes
// objects allocated later distinct from everything reachable now.
func (vc *VC) typeFacts(st *State, v *Term, t types.Type) {
	if f := vc.factsOf(v, t, st.alloc, 0); f != nil {
		st.assume(f)
	}
}

// factsOf builds the well-formedness formula of a value of Go type t (nil when there is none).
func (vc *VC) factsOf(v *Term, t types.Type, alloc *Term, depth int) *Term {
	t = types.Unalias(t)
	if isNamed(t, "math/big", "Int") {
		return And(Bin(sortBool, ">=", bigBuf(v), IntLit(0)), Bin(sortBool, "<=", bigBuf(v), alloc))
	}
	if isNamed(t, "time", "Time") || isNamed(t, "sync", "Mutex") || isNamed(t, "sync", "RWMutex") || isNamed(t, "sync", "Once") {
		return nil
	}
	switch u := t.Underlying().(type) {
	case *types.Basic:
		if u.Info()&types.IsUnsigned != 0 {
			return Bin(sortBool, ">=", v, IntLit(0))
		}
	case *types.Pointer, *types.Map, *types.Chan:
		return Bin(sortBool, "<=", v, alloc)
	case *types.Slice:
		return And(Bin(sortBool, ">=", sliceLen(v), IntLit(0)), Bin(sortBool, ">=", sliceCap(v), sliceLen(v)), Bin(sortBool, "<=", sliceCap(v), IntLit(1<<31)),
			Bin(sortBool, ">=", sliceOff(v), IntLit(0)), Bin(sortBool, ">=", sliceArr(v), IntLit(0)), Bin(sortBool, "<=", sliceArr(v), alloc),
			Implies(Eq(sliceArr(v), IntLit(0)), Eq(sliceCap(v), IntLit(0))))
	case *types.Interface:
		return And(Implies(Eq(ifaceTag(v), IntLit(0)), Eq(ifaceVal(v), IntLit(0))), Bin(sortBool, ">=", ifaceTag(v), IntLit(0)), Bin(sortBool, "<=", ifaceVal(v), alloc))
	case *types.Struct:
		if v.Sort.Kind != KStruct || depth > 3 {
			return nil
		}
		var parts []*Term
		for i := 0; i < u.NumFields(); i++ {
			if f := vc.factsOf(FieldGet(v, i), u.Field(i).Type(), alloc, depth+1); f != nil {
				parts = append(parts, f)
			}
		}
		if len(parts) == 0 {
			return nil
		}
		return And(parts...)
	}
	return nil
}

// heapFacts2: the same for two-level heaps (map values, backing arrays): (select (select h r) k).
func (vc *VC) heapFacts2(h *Term, key, s *Sort, alloc *Term) *Term {
	var gt types.Type
	switch s.Kind {
	case KStruct:
		gt = s.Go
	case KBig:
		gt = vc.eng.bigIntType()
	}
	if gt == nil {
		return nil
	}
	q := fmt.Sprintf("hf%d", vc.nfresh)
	k := fmt.Sprintf("hk%d", vc.nfresh)
	vc.nfresh++
	obj := T(s, "(select (select "+h.S+" "+q+") "+k+")")
	f := vc.factsOf(obj, gt, alloc, 0)
	if f == nil {
		return nil
	}
	return T(sortBool, fmt.Sprintf("(forall ((%s Int) (%s %s)) (! %s :pattern ((select (select %s %s) %s))))", q, k, key.Name, f.S, h.S, q, k))
}

// heapFacts: every object in a (fresh or initial) heap of struct / big.Int sort is well-formed.
func (vc *VC) heapFacts(h *Term, s *Sort, alloc *Term) *Term {
	var gt types.Type
	switch s.Kind {
	case KStruct:
		gt = s.Go
	case KBig:
		gt = vc.eng.bigIntType()
	}
	if gt == nil {
		return nil
	}
	q := fmt.Sprintf("hf%d", vc.nfresh)
	vc.nfresh++
	obj := T(s, "(select "+h.S+" "+q+")")
	f := vc.factsOf(obj, gt, alloc, 0)
	if f == nil {
		return nil
	}
	return T(sortBool, fmt.Sprintf("(forall ((%s Int)) (! %s :pattern ((select %s %s))))", q, f.S, h.S, q))
}

func (vc *VC) freshValue(st *State, t types.Type, hint string) Value {
	if tup, ok := t.(*types.Tuple); ok {
		var out Tuple
		for i := 0; i < tup.Len(); i++ {
			out = append(out, vc.freshValue(st, tup.At(i).Type(), fmt.Sprintf("%s_%d", hint, i)))
		}
		return out
	}
	s := vc.eng.st.SortOf(t)
	v := vc.fresh(hint, s)
	vc.typeFacts(st, v, t)
	return v
}

func (vc *VC) constValue(c *ssa.Const) Value {
	t := c.Type()
	s := vc.eng.st.SortOf(t)
	if c.Value == nil {
		return vc.eng.st.Zero(s)
	}
	switch s.Kind {
	case KBool:
		return BoolLit(constant.BoolVal(c.Value))
	case KStr:
		return vc.eng.strLit(constant.StringVal(c.Value))
	case KInt:
		return vc.constTerm(c.Value, t)
	}
	return vc.eng.st.Zero(s)
}

func (vc *VC) globalRef(g *ssa.Global) *Term {
	id := vc.eng.globalID(g)
	return IntLit(int64(-(1000 + id)))
}

func (e *Engine) globalID(g *ssa.Global) int {
	if id, ok := e.globalIDs[g]; ok {
		return id
	}
	id := len(e.globalIDs) + 1
	e.globalIDs[g] = id
	return id
}

func isErrorType(t types.Type) bool {
	return types.Identical(t, types.Universe.Lookup("error").Type())
}

// loadGlobal reads a package-level variable.
func (vc *VC) loadGlobal(st *State, g *ssa.Global) Value {
	if v, ok := st.globals[g]; ok {
		return v
	}
	elem := g.Type().(*types.Pointer).Elem()
	s := vc.eng.st.SortOf(elem)
	name := "gv_" + smtName(g.Pkg.Pkg.Name()+"_"+g.Name())
	vc.declare(name, s)
	v := T(s, name)
	// a package-level variable that is only ever assigned once, a constant, in the package
	// initialiser, has that value
	if c := vc.eng.constGlobal(g); c != nil {
		cv := vc.constValue(c)
		if ct, ok := cv.(*Term); ok && ct.Sort.Name == s.Name {
			vc.axiom(fmt.Sprintf("(= %s %s)", name, ct.S))
			vc.note("package variable %s.%s is only assigned in its initialiser: treated as the constant it is initialised with", g.Pkg.Pkg.Name(), g.Name())
		}
	}
	if isErrorType(elem) {
		// package-level error values: non-nil, pairwise distinct, never reassigned (assumption)
		id := vc.eng.globalID(g)
		vc.axiom(fmt.Sprintf("(= (ival %s) (- %d))", name, 1000+id))
		vc.axiom(fmt.Sprintf("(= (itag %s) %d)", name, vc.eng.tagOf(types.NewPointer(types.Typ[types.Invalid]))))
		vc.note("package-level error variables are non-nil, pairwise distinct and never reassigned")
	} else if s.Kind == KInt {
		if _, isSig := elem.Underlying().(*types.Signature); !isSig {
			// facts about the type only
			tmp := &State{alloc: IntLit(0)}
			if b, ok := elem.Underlying().(*types.Basic); ok && b.Info()&types.IsUnsigned != 0 {
				vc.axiom(fmt.Sprintf("(>= %s 0)", name))
			}
			_ = tmp
		}
	}
	return v
}

func (vc *VC) value(st *State, f *Frame, v ssa.Value) Value {
	switch x := v.(type) {
	case *ssa.Const:
		return vc.constValue(x)
	case *ssa.Function:
		return &Closure{Fn: x}
	case *ssa.Global:
		elem := x.Type().(*types.Pointer).Elem()
		if arr, ok := elem.Underlying().(*types.Array); ok {
			return &Ptr{Root: RArr, Base: vc.globalRef(x), Sort: vc.eng.st.SortOf(arr.Elem())}
		}
		return &Ptr{Root: RObj, Base: vc.globalRef(x), Sort: vc.eng.st.SortOf(elem)}
	case *ssa.Builtin:
		refuse("builtin %s used as a value", x.Name())
	}
	if r, ok := f.regs[v]; ok {
		return r
	}
	refuse("value %s (%T) not available in %s", v.Name(), v, f.fn)
	return nil
}

func (vc *VC) tv(st *State, f *Frame, v ssa.Value) *Term {
	return vc.term(st, vc.value(st, f, v), v.Name())
}

// ---------------------------------------------------------------------------
// obligations

func (vc *VC) script(st *State, goal *Term, values []string) string {
	return vc.scriptPrefix(st) + scriptGoal(goal.S, values)
}

func scriptGoal(goal string, values []string) string {
	var b strings.Builder
	b.WriteString("(assert (not " + goal + "))\n(check-sat)\n")
	for _, v := range values {
		b.WriteString("(get-value (" + v + "))\n")
	}
	return b.String()
}

func (vc *VC) scriptPrefix(st *State) string {
	var b strings.Builder
	b.WriteString(vc.eng.st.Preamble())
	b.WriteString(vc.eng.strPreamble())
	for _, d := range vc.decls {
		b.WriteString(d)
		b.WriteByte('\n')
	}
	for _, a := range vc.axioms {
		b.WriteString("(assert " + a + ")\n")
	}
	for _, a := range st.pc {
		b.WriteString(a)
		b.WriteByte('\n')
	}
	return b.String()
}

func (vc *VC) oblName(kind string) string {
	return fmt.Sprintf("%s:%s", vc.fnName(), kind)
}

func (vc *VC) fnName() string {
	pkg := ""
	if vc.fn.Pkg != nil {
		pkg = strings.TrimPrefix(vc.fn.Pkg.Pkg.Path(), vc.eng.modPath)
		pkg = strings.TrimPrefix(pkg, "/")
		if pkg == "" {
			pkg = "main"
		}
	}
	return pkg + "." + vc.fn.RelString(vc.fn.Pkg.Pkg)
}

// oblige records an obligation: on this path, goal must hold.
// unprovable records a clause of the function under contract that cannot even be stated over the
// current code (it names a variable, loop, go statement or call the body no longer has): the
// obligation is undischarged, which is a failed obligation and not a defect of the checker.
func (vc *VC) unprovable(kind string, props []string, pos string, err error) {
	vc.obls = append(vc.obls, &Obligation{Name: vc.oblName(kind), Props: props, Func: vc.fnName(), FuncKey: vc.key, Kind: kind, Path: vc.npaths, Pos: pos,
		Goal: "false", Result: SolveResult{Answer: "unknown", Solver: "spec", Output: "the clause cannot be evaluated over the current body: " + err.Error()}})
}

func (vc *VC) oblige(st *State, kind string, goal *Term, props []string, pos string) {
	if goal.S == "true" {
		// trivially discharged; still counted, no solver call needed
		vc.obls = append(vc.obls, &Obligation{Name: vc.oblName(kind), Props: props, Func: vc.fnName(), FuncKey: vc.key, Kind: kind, Path: vc.npaths, Pos: pos,
			Goal: "true", Result: SolveResult{Answer: "unsat", Solver: "syntactic"}})
		return
	}
	o := &Obligation{Name: vc.oblName(kind), Props: props, Func: vc.fnName(), FuncKey: vc.key, Kind: kind, Path: vc.npaths, Pos: pos,
		Trace: append([]string{}, st.trace...), Goal: goal.S, Labels: map[string]string{}, After: st.lastCall}
	o.Values = append(append([]string{}, vc.valueNames...), vc.extraValues...)
	for k, v := range vc.valueLabels {
		o.Labels[k] = v
	}
	if vc.groupKey != "" {
		if vc.groupPrefix == "" {
			vc.groupPrefix = vc.scriptPrefix(st)
		}
		o.Prefix = vc.groupPrefix
		o.Group = vc.groupKey
	} else {
		o.Prefix = vc.scriptPrefix(st)
	}
	o.Script = o.Prefix + scriptGoal(goal.S, o.Values)
	vc.obls = append(vc.obls, o)
}

// cover records a vacuity canary: the path condition must be satisfiable here.
func (vc *VC) cover(st *State, kind string, pos string) {
	o := &Obligation{Name: vc.oblName(kind), Func: vc.fnName(), FuncKey: vc.key, Kind: kind, Path: vc.npaths, Pos: pos, MustFail: true,
		Trace: append([]string{}, st.trace...), Goal: "false"}
	o.Script = vc.script(st, tFalse, nil)
	vc.obls = append(vc.obls, o)
}

// site names the instruction being executed in a way that survives unrelated edits: the
// function, the class of the instruction (callee name for calls) and its ordinal among the
// instructions of that class in the function (source order).
func (vc *VC) site() string {
	ins := vc.curIns
	if ins == nil || ins.Parent() == nil {
		return "?"
	}
	fn := ins.Parent()
	ords := vc.eng.siteOrds[fn]
	if ords == nil {
		ords = map[ssa.Instruction]string{}
		counts := map[string]int{}
		for _, b := range fn.Blocks {
			for _, in := range b.Instrs {
				cls := insClass(in)
				ords[in] = fmt.Sprintf("%s#%d", cls, counts[cls])
				counts[cls]++
			}
		}
		vc.eng.siteOrds[fn] = ords
	}
	if fn == vc.fn {
		return ords[ins]
	}
	return fn.Name() + "." + ords[ins]
}

func insClass(in ssa.Instruction) string {
	if c, ok := in.(ssa.CallInstruction); ok {
		cc := c.Common()
		if cc.IsInvoke() {
			return cc.Method.Name()
		}
		if callee := cc.StaticCallee(); callee != nil {
			return callee.Name()
		}
		if k := funcFieldOf(cc.Value); k != "" {
			return lastSeg(k)
		}
		if b, ok := cc.Value.(*ssa.Builtin); ok {
			return b.Name()
		}
		return "dyncall"
	}
	t := fmt.Sprintf("%T", in)
	return strings.TrimPrefix(t, "*ssa.")
}

// safetyCheck emits a safety obligation when the sweep is on, and assumes the fact afterwards.
func (vc *VC) safetyCheck(st *State, what string, goal *Term, pos token.Pos) {
	if vc.safety {
		kind := fmt.Sprintf("safety:%s@%s", what, vc.site())
		vc.oblige(st, kind, goal, vc.safetyProps(), vc.posOf(pos))
	}
	st.assume(goal)
}

func (vc *VC) safetyProps() []string { return []string{"C15"} }

// ---------------------------------------------------------------------------
// exploration

func (vc *VC) explore(init *State) {
	work := []*State{init}
	for len(work) > 0 {
		st := work[len(work)-1]
		work = work[:len(work)-1]
		for !st.dead {
			forks := vc.step(st)
			if len(forks) > 0 && vc.npaths+len(work) > 48 {
				// many paths: prune infeasible branches with the solver
				var keep []*State
				for _, fk := range forks {
					if vc.feasible(fk) {
						keep = append(keep, fk)
					}
				}
				forks = keep
				if !st.dead && !vc.feasible(st) {
					st.dead = true
					vc.npruned++
				}
			}
			work = append(work, forks...)
			if len(work) > vc.maxPaths {
				refuse("more than %d pending paths", vc.maxPaths)
			}
		}
		vc.npaths++
		if vc.npaths > vc.maxPaths {
			refuse("more than %d paths", vc.maxPaths)
		}
	}
}

// feasible asks the solver whether the path condition is satisfiable (unknown counts as feasible).
func (vc *VC) feasible(st *State) bool {
	if st.dead {
		return false
	}
	dir := vc.eng.pruneDir
	if dir == "" {
		return true
	}
	vc.nprune++
	file := filepath.Join(dir, fmt.Sprintf("prune_%d.smt2", vc.nprune%16))
	// quantified assumptions are dropped: fewer assumptions keep an "unsat" answer sound, and
	// the solver answers quantifier-free queries at once
	var b strings.Builder
	for _, ln := range strings.Split(vc.script(st, tFalse, nil), "\n") {
		if strings.HasPrefix(ln, "(assert") && strings.Contains(ln, "(forall ") {
			continue
		}
		b.WriteString(ln)
		b.WriteByte('\n')
	}
	os.WriteFile(file, []byte(b.String()), 0o644)
	ans, _, _ := runSolver(solvers[0], file, 1, 0)
	if ans == "unsat" {
		vc.npruned++
		return false
	}
	return true
}

func (vc *VC) enterBlock(st *State, f *Frame, from, to *ssa.BasicBlock) []*State {
	f.prev = from
	f.block = to
	f.idx = 0
	st.trace = append(st.trace, fmt.Sprintf("%s#%d", f.fn.Name(), to.Index))
	// loop header?
	loops := vc.eng.loopsOf(f.fn)
	if li, ok := loops[to]; ok {
		if f.cut[to] && from != nil && li.body[from] {
			// back edge: evaluate phis for the latch edge, assert invariant, end path
			vc.evalPhis(st, f, from, to)
			vc.loopInvariants(st, f, li, "inv-step")
			if len(st.frames) == 1 || f.contract != nil {
				// vacuity canary: some path must be able to complete an iteration
				vc.cover(st, fmt.Sprintf("cover@%s-loop%d-step", f.fn.Name(), li.ordinal), vc.posOf(li.header.Instrs[0].Pos()))
			}
			st.dead = true
			return nil
		}
		// entry edge
		vc.evalPhis(st, f, from, to)
		if f.loopEntry == nil {
			f.loopEntry = map[*ssa.BasicBlock]*State{}
		}
		snap := st.snapshot()
		snap.frames = st.frames // registers are single-assignment: reading them through the live frames is safe
		f.loopEntry[to] = snap
		vc.loopInvariants(st, f, li, "inv-entry")
		vc.havocLoop(st, f, li)
		f.cut[to] = true
		vc.loopInvariants(st, f, li, "assume")
		return nil
	}
	vc.evalPhis(st, f, from, to)
	return nil
}

func (vc *VC) evalPhis(st *State, f *Frame, from, to *ssa.BasicBlock) {
	if from == nil {
		return
	}
	edge := -1
	for i, p := range to.Preds {
		if p == from {
			edge = i
			break
		}
	}
	// phis read their operands simultaneously
	newVals := map[ssa.Value]Value{}
	n := 0
	for _, ins := range to.Instrs {
		phi, ok := ins.(*ssa.Phi)
		if !ok {
			break
		}
		newVals[phi] = vc.value(st, f, phi.Edges[edge])
		n++
	}
	for k, v := range newVals {
		f.regs[k] = v
	}
	// a phi named after a source variable is that variable's current binding from here on
	for _, ins := range to.Instrs {
		phi, ok := ins.(*ssa.Phi)
		if !ok {
			break
		}
		if phi.Comment == "" || f.names == nil {
			continue
		}
		if _, known := f.names[phi.Comment]; !known {
			continue
		}
		for o, v := range f.objs {
			if o.Name() != phi.Comment {
				continue
			}
			for _, ev := range phi.Edges {
				if ev == v {
					f.objs[o] = phi
					break
				}
			}
		}
		f.names[phi.Comment] = phi
	}
	f.idx = n
}

// step executes one instruction of the top frame.
func (vc *VC) step(st *State) []*State {
	f := st.top()
	if f.idx >= len(f.block.Instrs) {
		refuse("fell off block %d of %s", f.block.Index, f.fn)
	}
	ins := f.block.Instrs[f.idx]
	vc.curIns = ins
	if _, isCall := ins.(*ssa.Call); isCall && len(st.frames) == 1 {
		st.lastCall = vc.site() // the call the top-level function made most recently on this path
	}
	switch x := ins.(type) {
	case *ssa.If:
		cond := vc.tv(st, f, x.Cond)
		tb, fb := f.block.Succs[0], f.block.Succs[1]
		if cond.S == "true" {
			return vc.enterBlock(st, f, f.block, tb)
		}
		if cond.S == "false" {
			return vc.enterBlock(st, f, f.block, fb)
		}
		other := st.clone()
		other.assume(Not(cond))
		of := other.top()
		forks := vc.enterBlock(other, of, of.block, fb)
		st.assume(cond)
		forks = append(forks, vc.enterBlock(st, f, f.block, tb)...)
		return append(forks, other)
	case *ssa.Jump:
		return vc.enterBlock(st, f, f.block, f.block.Succs[0])
	case *ssa.Return:
		var res []Value
		for _, r := range x.Results {
			res = append(res, vc.value(st, f, r))
		}
		return vc.doReturn(st, f, res, x.Pos())
	case *ssa.Panic:
		if vc.safety {
			vc.oblige(st, fmt.Sprintf("safety:panic@%s", vc.site()), tFalse, vc.safetyProps(), vc.posOf(x.Pos()))
		}
		st.dead = true
		return nil
	case *ssa.RunDefers:
		if len(f.defers) == 0 {
			f.inDefers = false
			f.idx++
			return nil
		}
		d := f.defers[len(f.defers)-1]
		f.defers = f.defers[:len(f.defers)-1]
		// stay on RunDefers until the stack is empty
		return vc.doCall(st, f, nil, d.call, d.args, d.fnv, true, d.pos)
	case *ssa.Defer:
		args, fnv := vc.evalCallOperands(st, f, &x.Call)
		f.defers = append(f.defers, deferRec{call: &x.Call, args: args, fnv: fnv, pos: vc.posOf(x.Pos())})
		f.idx++
		return nil
	case *ssa.Go:
		args, fnv := vc.evalCallOperands(st, f, &x.Call)
		name := "?"
		if c, ok := fnv.(*Closure); ok {
			name = c.Fn.String()
		} else if x.Call.IsInvoke() {
			name = x.Call.Method.FullName()
		}
		st.events = append(st.events, Event{Kind: "go", Name: name, Args: append([]Value{fnv}, args...)})
		if len(st.frames) == 1 {
			vc.logSpawn(st, f, x, vc.spawnValues(st, fnv, args))
		}
		vc.checkSpawnRequires(st, f, x, fnv, args)
		f.idx++
		return nil
	case *ssa.Call:
		args, fnv := vc.evalCallOperands(st, f, &x.Call)
		return vc.doCall(st, f, x, &x.Call, args, fnv, false, vc.posOf(x.Pos()))
	case *ssa.Next:
		return vc.doNext(st, f, x)
	case *ssa.Select:
		return vc.doSelect(st, f, x)
	default:
		vc.simple(st, f, ins)
		f.idx++
		return nil
	}
}

func (vc *VC) doReturn(st *State, f *Frame, res []Value, pos token.Pos) []*State {
	if len(st.frames) == 1 {
		vc.finish(st, f, res, pos)
		st.dead = true
		return nil
	}
	// pop an inlined frame
	st.frames = st.frames[:len(st.frames)-1]
	if f.onReturn != nil {
		res = f.onReturn(vc, st, res)
	}
	caller := st.top()
	if f.retTo != nil {
		switch len(res) {
		case 0:
		case 1:
			caller.regs[f.retTo] = res[0]
		default:
			caller.regs[f.retTo] = Tuple(res)
		}
	}
	if !caller.inDefers {
		caller.idx++
	}
	// a deferred call returns to the RunDefers instruction itself (idx unchanged)
	return nil
}

// simple executes the non-control-flow instructions.
func (vc *VC) simple(st *State, f *Frame, ins ssa.Instruction) {
	T := vc.eng.st
	switch x := ins.(type) {
	case *ssa.DebugRef:
		if obj := x.Object(); obj != nil && !x.IsAddr {
			if f.names == nil {
				f.names = map[string]ssa.Value{}
				f.objs = map[types.Object]ssa.Value{}
			}
			f.names[obj.Name()] = x.X
			f.objs[obj] = x.X
			if os.Getenv("VERIF_DEBUG_NAMES") == obj.Name() {
				fmt.Fprintf(os.Stderr, "debugref %s := %s in block %d\n", obj.Name(), x.X, x.Block().Index)
			}
		}
	case *ssa.Alloc:
		elem := x.Type().(*types.Pointer).Elem()
		if arr, ok := types.Unalias(elem).Underlying().(*types.Array); ok {
			es := T.SortOf(arr.Elem())
			r := vc.newRef(st, "arr")
			n, h := vc.arrHeap(st, es)
			vc.setHeap(st, n, Store(h, r, T.Zero(T.ArrayOf(sortInt, es))))
			f.regs[x] = &Ptr{Root: RArr, Base: r, Sort: es}
			return
		}
		s := T.SortOf(elem)
		r := vc.newRef(st, "obj")
		n, h := vc.objHeap(st, s)
		vc.setHeap(st, n, Store(h, r, T.Zero(s)))
		f.regs[x] = &Ptr{Root: RObj, Base: r, Sort: s}
	case *ssa.Store:
		if g, ok := x.Addr.(*ssa.Global); ok {
			st.globals[g] = vc.value(st, f, x.Val)
			return
		}
		p := vc.asPtr(vc.value(st, f, x.Addr), x.Addr.Type().Underlying().(*types.Pointer).Elem())
		vc.nilCheck(st, p, "store", x.Pos())
		vc.guardCheck(st, f, x.Addr, x.Pos())
		v := vc.tv(st, f, x.Val)
		vc.store(st, p, v)
	case *ssa.UnOp:
		f.regs[x] = vc.unop(st, f, x)
	case *ssa.BinOp:
		f.regs[x] = vc.binop(st, f, x)
	case *ssa.FieldAddr:
		pt := x.X.Type().Underlying().(*types.Pointer).Elem()
		p := vc.asPtr(vc.value(st, f, x.X), pt)
		if vc.targetSort(p).Kind != KStruct {
			refuse("field address into %s, which is modelled as %s", pt, vc.targetSort(p).Name)
		}
		vc.nilCheck(st, p, "fieldaddr", x.Pos())
		f.regs[x] = p.withStep(PathStep{Field: x.Field})
	case *ssa.Field:
		v := vc.tv(st, f, x.X)
		if v.Sort.Kind != KStruct {
			refuse("field of %s, which is modelled as %s", x.X.Type(), v.Sort.Name)
		}
		f.regs[x] = FieldGet(v, x.Field)
	case *ssa.IndexAddr:
		idx := vc.tv(st, f, x.Index)
		switch u := x.X.Type().Underlying().(type) {
		case *types.Slice:
			s := vc.tv(st, f, x.X)
			vc.safetyCheck(st, "index", And(Bin(sortBool, "<=", IntLit(0), idx), Bin(sortBool, "<", idx, sliceLen(s))), x.Pos())
			f.regs[x] = &Ptr{Root: RElem, Base: sliceArr(s), Idx: Bin(sortInt, "+", sliceOff(s), idx), Sort: T.SortOf(u.Elem())}
		case *types.Pointer:
			arr := u.Elem().Underlying().(*types.Array)
			p := vc.asPtr(vc.value(st, f, x.X), u.Elem())
			vc.safetyCheck(st, "index", And(Bin(sortBool, "<=", IntLit(0), idx), Bin(sortBool, "<", idx, IntLit(arr.Len()))), x.Pos())
			if p.Root == RArr && len(p.Path) == 0 {
				f.regs[x] = &Ptr{Root: RElem, Base: p.Base, Idx: idx, Sort: p.Sort}
			} else {
				f.regs[x] = p.withStep(PathStep{Index: idx})
			}
		default:
			refuse("IndexAddr on %s", x.X.Type())
		}
	case *ssa.Index:
		v := vc.tv(st, f, x.X)
		idx := vc.tv(st, f, x.Index)
		switch v.Sort.Kind {
		case KStr:
			vc.safetyCheck(st, "index", And(Bin(sortBool, "<=", IntLit(0), idx), Bin(sortBool, "<", idx, App(sortInt, "strlen", v))), x.Pos())
			r := App(sortInt, "strat", v, idx)
			st.assume(And(Bin(sortBool, "<=", IntLit(0), r), Bin(sortBool, "<=", r, IntLit(255))))
			f.regs[x] = r
		case KArray:
			if arr, ok := x.X.Type().Underlying().(*types.Array); ok {
				vc.safetyCheck(st, "index", And(Bin(sortBool, "<=", IntLit(0), idx), Bin(sortBool, "<", idx, IntLit(arr.Len()))), x.Pos())
			}
			f.regs[x] = Select(v, idx, v.Sort.Elem)
		default:
			refuse("Index on %s", x.X.Type())
		}
	case *ssa.Lookup:
		vc.lookup(st, f, x)
	case *ssa.MapUpdate:
		mt := x.Map.Type().Underlying().(*types.Map)
		m := vc.tv(st, f, x.Map)
		vc.safetyCheck(st, "nilmap", Not(Eq(m, IntLit(0))), x.Pos())
		vc.guardCheckMap(st, f, x.Map, x.Pos())
		vc.mapStore(st, mt, m, vc.tv(st, f, x.Key), vc.tv(st, f, x.Value))
	case *ssa.MakeMap:
		mt := x.Type().Underlying().(*types.Map)
		ks, _ := T.SortOf(mt.Key()), T.SortOf(mt.Elem())
		mh := vc.mapHeapsOf(st, mt)
		r := vc.newRef(st, "map")
		vc.setHeap(st, mh.pn, Store(mh.p, r, T.Zero(T.ArrayOf(ks, sortBool))))
		vc.setHeap(st, mh.nn, Store(mh.n, r, IntLit(0)))
		vc.measureReset(st, mt, r)
		f.regs[x] = r
	case *ssa.MakeSlice:
		es := T.SortOf(x.Type().Underlying().(*types.Slice).Elem())
		ln, cp := vc.tv(st, f, x.Len), vc.tv(st, f, x.Cap)
		vc.safetyCheck(st, "make", And(Bin(sortBool, "<=", IntLit(0), ln), Bin(sortBool, "<=", ln, cp), Bin(sortBool, "<=", cp, IntLit(1<<31))), x.Pos())
		r := vc.newRef(st, "arr")
		n, h := vc.arrHeap(st, es)
		vc.setHeap(st, n, Store(h, r, T.Zero(T.ArrayOf(sortInt, es))))
		f.regs[x] = mkSlice(r, IntLit(0), ln, cp)
	case *ssa.MakeChan:
		ch := vc.newRef(st, "chan")
		// ghost: the capacity of every channel
		cs := vc.heap(st, "CHCAP", vc.eng.st.ArrayOf(sortInt, sortInt))
		vc.setHeap(st, "CHCAP", Store(cs, ch, vc.tv(st, f, x.Size)))
		f.regs[x] = ch
	case *ssa.MakeClosure:
		c := &Closure{Fn: x.Fn.(*ssa.Function)}
		for _, b := range x.Bindings {
			c.Bind = append(c.Bind, vc.value(st, f, b))
		}
		f.regs[x] = c
	case *ssa.MakeInterface:
		v := vc.value(st, f, x.X)
		f.regs[x] = vc.box(st, vc.term(st, v, "make-interface at "+vc.posOf(x.Pos())), x.X.Type())
	case *ssa.ChangeInterface:
		f.regs[x] = vc.value(st, f, x.X)
	case *ssa.ChangeType:
		f.regs[x] = vc.value(st, f, x.X)
	case *ssa.Convert:
		f.regs[x] = vc.convert(st, f, x)
	case *ssa.Extract:
		tup, ok := vc.value(st, f, x.Tuple).(Tuple)
		if !ok {
			refuse("extract from non-tuple %s", x.Tuple.Name())
		}
		f.regs[x] = tup[x.Index]
	case *ssa.TypeAssert:
		vc.typeAssert(st, f, x)
	case *ssa.Slice:
		vc.sliceOp(st, f, x)
	case *ssa.Range:
		mt, ok := x.X.Type().Underlying().(*types.Map)
		if !ok {
			refuse("range over %s", x.X.Type())
		}
		ks, es := T.SortOf(mt.Key()), T.SortOf(mt.Elem())
		m := vc.tv(st, f, x.X)
		vc.guardCheckMap(st, f, x.X, x.Pos())
		f.iters[x] = &iterState{mapRef: m, keySort: ks, valSort: es, mapType: mt, visited: T.Zero(T.ArrayOf(ks, sortBool))}
		f.regs[x] = IntLit(0)
	case *ssa.Send:
		vc.doSend(st, f, x)
	default:
		refuse("unsupported instruction %T (%s)", ins, ins)
	}
}

func (vc *VC) nilCheck(st *State, p *Ptr, what string, pos token.Pos) {
	if p.Root == RObj && len(p.Path) == 0 || p.Root == RArr {
		// allocated in this function? then syntactically non-nil (fresh refs are > alloc >= 0)
		vc.safetyCheck(st, "nil", Not(Eq(p.Base, IntLit(0))), pos)
	} else if p.Root == RObj {
		vc.safetyCheck(st, "nil", Not(Eq(p.Base, IntLit(0))), pos)
	}
}

func (vc *VC) unop(st *State, f *Frame, x *ssa.UnOp) Value {
	switch x.Op {
	case token.MUL: // load
		if g, ok := x.X.(*ssa.Global); ok {
			return vc.loadGlobal(st, g)
		}
		pt := x.X.Type().Underlying().(*types.Pointer).Elem()
		p := vc.asPtr(vc.value(st, f, x.X), pt)
		vc.nilCheck(st, p, "load", x.Pos())
		vc.guardCheck(st, f, x.X, x.Pos())
		v := vc.load(st, p)
		vc.noteGuardedMap(st, f, x.X, v)
		return v
	case token.NOT:
		return Not(vc.tv(st, f, x.X))
	case token.SUB:
		return T(sortInt, "(- "+vc.tv(st, f, x.X).S+")")
	case token.XOR:
		return App(sortInt, "go.xor", vc.tv(st, f, x.X), IntLit(-1))
	case token.ARROW:
		return vc.doRecv(st, f, x)
	}
	refuse("unary %s", x.Op)
	return nil
}

func (vc *VC) binop(st *State, f *Frame, x *ssa.BinOp) Value {
	av, bv := vc.value(st, f, x.X), vc.value(st, f, x.Y)
	a, b := vc.term(st, av, "binop"), vc.term(st, bv, "binop")
	switch x.Op {
	case token.EQL, token.NEQ:
		var eq *Term
		switch {
		case a.Sort.Kind == KIface:
			// comparison with nil is a tag test; otherwise structural on (tag, val)
			if b.S == "(mk_iface 0 0)" {
				eq = Eq(ifaceTag(a), IntLit(0))
			} else if a.S == "(mk_iface 0 0)" {
				eq = Eq(ifaceTag(b), IntLit(0))
			} else {
				eq = Eq(a, b)
			}
		case a.Sort.Kind == KSlice:
			// only comparison with nil is legal
			other := a
			if a.S == "(mk_slice 0 0 0 0)" {
				other = b
			}
			eq = Eq(sliceArr(other), IntLit(0))
		default:
			eq = Eq(a, b)
		}
		if x.Op == token.NEQ {
			eq = Not(eq)
		}
		return eq
	}
	if a.Sort.Kind == KStr {
		switch x.Op {
		case token.ADD:
			return vc.strCat(st, a, b)
		case token.LSS:
			return App(sortBool, "strlt", a, b)
		case token.GTR:
			return App(sortBool, "strlt", b, a)
		case token.LEQ:
			return Not(App(sortBool, "strlt", b, a))
		case token.GEQ:
			return Not(App(sortBool, "strlt", a, b))
		}
	}
	if a.Sort.Kind == KBool {
		switch x.Op {
		case token.LAND, token.AND:
			return And(a, b)
		case token.LOR, token.OR:
			return Or(a, b)
		}
	}
	isFloat := false
	if bt, ok := x.X.Type().Underlying().(*types.Basic); ok && bt.Info()&(types.IsFloat|types.IsComplex) != 0 {
		isFloat = true
	}
	if isFloat {
		// floats are opaque
		switch x.Op {
		case token.LSS, token.LEQ, token.GTR, token.GEQ:
			return vc.fresh("fcmp", sortBool)
		}
		return vc.fresh("fop", sortInt)
	}
	switch x.Op {
	case token.ADD:
		return Bin(sortInt, "+", a, b)
	case token.SUB:
		return Bin(sortInt, "-", a, b)
	case token.MUL:
		return Bin(sortInt, "*", a, b)
	case token.QUO:
		vc.safetyCheck(st, "div0", Not(Eq(b, IntLit(0))), x.Pos())
		return Bin(sortInt, "go.div", a, b)
	case token.REM:
		vc.safetyCheck(st, "div0", Not(Eq(b, IntLit(0))), x.Pos())
		return Bin(sortInt, "go.rem", a, b)
	case token.LSS:
		return Bin(sortBool, "<", a, b)
	case token.LEQ:
		return Bin(sortBool, "<=", a, b)
	case token.GTR:
		return Bin(sortBool, ">", a, b)
	case token.GEQ:
		return Bin(sortBool, ">=", a, b)
	case token.SHL:
		return App(sortInt, "go.shl", a, b)
	case token.SHR:
		return App(sortInt, "go.shr", a, b)
	case token.AND:
		return App(sortInt, "go.and", a, b)
	case token.OR:
		return App(sortInt, "go.or", a, b)
	case token.XOR:
		return App(sortInt, "go.xor", a, b)
	case token.AND_NOT:
		return App(sortInt, "go.andnot", a, b)
	}
	refuse("binary %s on %s", x.Op, a.Sort.Name)
	return nil
}

func (vc *VC) convert(st *State, f *Frame, x *ssa.Convert) Value {
	T := vc.eng.st
	from, to := x.X.Type().Underlying(), x.Type().Underlying()
	v := vc.value(st, f, x.X)
	fs, ts := T.SortOf(x.X.Type()), T.SortOf(x.Type())
	fb, fIsBasic := from.(*types.Basic)
	tb, tIsBasic := to.(*types.Basic)
	switch {
	case fs.Kind == KStr && ts.Kind == KSlice: // string -> []byte / []rune
		s := vc.term(st, v, "convert")
		r := vc.newRef(st, "bytes")
		n, h := vc.arrHeap(st, sortInt)
		vc.setHeap(st, n, Store(h, r, App(T.ArrayOf(sortInt, sortInt), "str2arr", s)))
		ln := App(sortInt, "strlen", s)
		st.strConvs = append(st.strConvs[:len(st.strConvs):len(st.strConvs)], strConv{ref: r, str: s})
		return mkSlice(r, IntLit(0), ln, ln)
	case fs.Kind == KSlice && ts.Kind == KStr: // []byte -> string
		s := vc.term(st, v, "convert")
		_, h := vc.arrHeap(st, sortInt)
		arr := Select(h, sliceArr(s), T.ArrayOf(sortInt, sortInt))
		r := App(sortStr, "bytes2str", arr, sliceOff(s), sliceLen(s))
		st.assume(Eq(App(sortInt, "strlen", r), sliceLen(s)))
		return r
	case fs.Kind == KInt && ts.Kind == KStr: // string(rune)
		return vc.fresh("runestr", sortStr)
	case fs.Kind == KInt && ts.Kind == KInt:
		if fIsBasic && tIsBasic {
			ff := fb.Info()&types.IsFloat != 0
			tf := tb.Info()&types.IsFloat != 0
			if ff != tf {
				r := vc.fresh("fconv", sortInt)
				return r
			}
			if tb.Info()&types.IsUnsigned != 0 && fb.Info()&types.IsUnsigned == 0 {
				vc.note("signed to unsigned conversions are the identity (machine arithmetic treated as mathematical)")
			}
		}
		return v
	case fs == ts || fs.Name == ts.Name:
		return v
	}
	refuse("conversion %s -> %s", x.X.Type(), x.Type())
	return nil
}

func (vc *VC) typeAssert(st *State, f *Frame, x *ssa.TypeAssert) {
	T := vc.eng.st
	v := vc.tv(st, f, x.X)
	if _, isIface := x.AssertedType.Underlying().(*types.Interface); isIface {
		// assertion to an interface type: succeeds iff the dynamic type implements it
		key := "impl_" + smtName(types.TypeString(x.AssertedType, nil))
		if len(key) > 80 {
			key = fmt.Sprintf("impl_%d", vc.eng.tagOf(x.AssertedType))
		}
		vc.declareFun(key, []*Sort{sortInt}, sortBool)
		ok := And(Not(Eq(ifaceTag(v), IntLit(0))), App(sortBool, key, ifaceTag(v)))
		// statically known: the static type of X already implements the asserted type
		if xi, isI := x.X.Type().Underlying().(*types.Interface); isI {
			if ai := x.AssertedType.Underlying().(*types.Interface); types.AssignableTo(x.X.Type(), x.AssertedType) || ifaceSubset(ai, xi) {
				ok = Not(Eq(ifaceTag(v), IntLit(0)))
			}
		}
		if x.CommaOk {
			f.regs[x] = Tuple{Ite(ok, v, T.Zero(sortIface)), ok}
		} else {
			vc.safetyCheck(st, "assert-type", ok, x.Pos())
			f.regs[x] = v
		}
		return
	}
	s := T.SortOf(x.AssertedType)
	ok := Eq(ifaceTag(v), IntLit(int64(vc.eng.tagOf(x.AssertedType))))
	val := vc.unbox(st, v, x.AssertedType, s)
	if x.CommaOk {
		f.regs[x] = Tuple{Ite(ok, val, T.Zero(s)), ok}
	} else {
		vc.safetyCheck(st, "assert-type", ok, x.Pos())
		f.regs[x] = val
	}
}

func ifaceSubset(a, b *types.Interface) bool {
	for i := 0; i < a.NumMethods(); i++ {
		m := a.Method(i)
		found := false
		for j := 0; j < b.NumMethods(); j++ {
			if b.Method(j).Name() == m.Name() && types.Identical(b.Method(j).Type(), m.Type()) {
				found = true
				break
			}
		}
		if !found {
			return false
		}
	}
	return true
}

func (vc *VC) sliceOp(st *State, f *Frame, x *ssa.Slice) {
	T := vc.eng.st
	get := func(v ssa.Value, def *Term) *Term {
		if v == nil {
			return def
		}
		return vc.tv(st, f, v)
	}
	switch u := x.X.Type().Underlying().(type) {
	case *types.Slice:
		s := vc.tv(st, f, x.X)
		lo := get(x.Low, IntLit(0))
		hi := get(x.High, sliceLen(s))
		mx := get(x.Max, sliceCap(s))
		vc.safetyCheck(st, "slice", And(Bin(sortBool, "<=", IntLit(0), lo), Bin(sortBool, "<=", lo, hi), Bin(sortBool, "<=", hi, mx), Bin(sortBool, "<=", mx, sliceCap(s))), x.Pos())
		f.regs[x] = mkSlice(sliceArr(s), Bin(sortInt, "+", sliceOff(s), lo), Bin(sortInt, "-", hi, lo), Bin(sortInt, "-", mx, lo))
	case *types.Basic: // string
		s := vc.tv(st, f, x.X)
		ln := App(sortInt, "strlen", s)
		lo := get(x.Low, IntLit(0))
		hi := get(x.High, ln)
		vc.safetyCheck(st, "slice", And(Bin(sortBool, "<=", IntLit(0), lo), Bin(sortBool, "<=", lo, hi), Bin(sortBool, "<=", hi, ln)), x.Pos())
		if x.Low == nil && x.High == nil {
			f.regs[x] = s
			return
		}
		r := App(sortStr, "strsub", s, lo, hi)
		st.assume(Eq(App(sortInt, "strlen", r), Bin(sortInt, "-", hi, lo)))
		f.regs[x] = r
	case *types.Pointer: // *[N]T
		arr := u.Elem().Underlying().(*types.Array)
		p := vc.asPtr(vc.value(st, f, x.X), u.Elem())
		if !(p.Root == RArr && len(p.Path) == 0) {
			refuse("slice of an array that is a struct field")
		}
		n := IntLit(arr.Len())
		lo := get(x.Low, IntLit(0))
		hi := get(x.High, n)
		mx := get(x.Max, n)
		vc.safetyCheck(st, "slice", And(Bin(sortBool, "<=", IntLit(0), lo), Bin(sortBool, "<=", lo, hi), Bin(sortBool, "<=", hi, mx), Bin(sortBool, "<=", mx, n)), x.Pos())
		_ = T
		f.regs[x] = mkSlice(p.Base, lo, Bin(sortInt, "-", hi, lo), Bin(sortInt, "-", mx, lo))
	default:
		refuse("slice of %s", x.X.Type())
	}
}

// ---------------------------------------------------------------------------
// maps

func (vc *VC) lookup(st *State, f *Frame, x *ssa.Lookup) {
	T := vc.eng.st
	if mt, ok := x.X.Type().Underlying().(*types.Map); ok {
		ks, es := T.SortOf(mt.Key()), T.SortOf(mt.Elem())
		m := vc.tv(st, f, x.X)
		k := vc.tv(st, f, x.Index)
		vc.guardCheckMap(st, f, x.X, x.Pos())
		mh := vc.mapHeapsOf(st, mt)
		present := Select(Select(mh.p, m, T.ArrayOf(ks, sortBool)), k, sortBool)
		// a nil map has no entries
		present = And(Not(Eq(m, IntLit(0))), present)
		val := Ite(present, Select(Select(mh.v, m, T.ArrayOf(ks, es)), k, es), T.Zero(es))
		if x.CommaOk {
			f.regs[x] = Tuple{val, present}
		} else {
			f.regs[x] = val
		}
		return
	}
	// string index
	s := vc.tv(st, f, x.X)
	idx := vc.tv(st, f, x.Index)
	vc.safetyCheck(st, "index", And(Bin(sortBool, "<=", IntLit(0), idx), Bin(sortBool, "<", idx, App(sortInt, "strlen", s))), x.Pos())
	f.regs[x] = App(sortInt, "strat", s, idx)
}

func (vc *VC) mapStore(st *State, mt *types.Map, m, k, v *Term) {
	T := vc.eng.st
	ks, es := T.SortOf(mt.Key()), T.SortOf(mt.Elem())
	mh := vc.mapHeapsOf(st, mt)
	pa := Select(mh.p, m, T.ArrayOf(ks, sortBool))
	va := Select(mh.v, m, T.ArrayOf(ks, es))
	was := Select(pa, k, sortBool)
	vc.measureUpdate(st, mt, m, was, Select(va, k, es), tTrue, v)
	n := Select(mh.n, m, sortInt)
	vc.setHeap(st, mh.nn, Store(mh.n, m, Ite(was, n, Bin(sortInt, "+", n, IntLit(1)))))
	vc.setHeap(st, mh.pn, Store(mh.p, m, Store(pa, k, tTrue)))
	vc.setHeap(st, mh.vn, Store(mh.v, m, Store(va, k, v)))
}

func (vc *VC) mapDelete(st *State, mt *types.Map, m, k *Term) {
	T := vc.eng.st
	ks, es := T.SortOf(mt.Key()), T.SortOf(mt.Elem())
	mh := vc.mapHeapsOf(st, mt)
	pa := Select(mh.p, m, T.ArrayOf(ks, sortBool))
	va := Select(mh.v, m, T.ArrayOf(ks, es))
	was := And(Not(Eq(m, IntLit(0))), Select(pa, k, sortBool))
	vc.measureUpdate(st, mt, m, was, Select(va, k, es), tFalse, T.Zero(es))
	n := Select(mh.n, m, sortInt)
	vc.setHeap(st, mh.nn, Store(mh.n, m, Ite(was, Bin(sortInt, "-", n, IntLit(1)), n)))
	vc.setHeap(st, mh.pn, Store(mh.p, m, Store(pa, k, tFalse)))
}

func (vc *VC) doNext(st *State, f *Frame, x *ssa.Next) []*State {
	T := vc.eng.st
	if x.IsString {
		refuse("range over a string")
	}
	it := f.iters[x.Iter]
	if it == nil {
		refuse("Next on unknown iterator")
	}
	mh := vc.mapHeapsOf(st, it.mapType)
	pa := Select(mh.p, it.mapRef, T.ArrayOf(it.keySort, sortBool))
	va := Select(mh.v, it.mapRef, T.ArrayOf(it.keySort, it.valSort))
	// done branch
	done := st.clone()
	df := done.top()
	dit := df.iters[x.Iter]
	qk := fmt.Sprintf("nk%d", vc.nfresh)
	vc.nfresh++
	done.assume(T_(sortBool, fmt.Sprintf("(forall ((%s %s)) (=> (select %s %s) (select %s %s)))", qk, it.keySort.Name, pa.S, qk, dit.visited.S, qk)))
	done.assume(Or(Not(Eq(it.mapRef, IntLit(0))), tTrue))
	vc.measureIterDone(done, df, x, dit)
	df.regs[x] = Tuple{tFalse, T.Zero(it.keySort), T.Zero(it.valSort)}
	df.idx++
	// element branch
	k := vc.fresh("rk", it.keySort)
	st.assume(Not(Eq(it.mapRef, IntLit(0))))
	st.assume(Select(pa, k, sortBool))
	st.assume(Not(Select(it.visited, k, sortBool)))
	v := Select(va, k, it.valSort)
	vc.typeFacts(st, k, it.mapType.Key())
	vc.measureIterStep(st, f, x, it, k, v)
	it.visited = Store(it.visited, k, tTrue)
	f.regs[x] = Tuple{tTrue, k, v}
	f.idx++
	return []*State{done}
}

func T_(s *Sort, str string) *Term { return T(s, str) }

// ---------------------------------------------------------------------------
// loop cut: havoc of everything the body may modify

type modTarget struct {
	heap string
	sort *Sort
	ref  ssa.Value // when non-nil: only this object (an Alloc outside the loop)
	kind string    // obj | arr | map | ghost | all
	mt   *types.Map
}

func (vc *VC) havocLoop(st *State, f *Frame, li *loopInfo) {
	T := vc.eng.st
	allocAtEntry := st.alloc
	// the allocation frontier at the start of an arbitrary iteration: facts about havocked values refer to it
	na := vc.fresh("alloc", sortInt)
	st.assume(Bin(sortBool, ">=", na, st.alloc))
	st.alloc = na
	// header phis
	for _, ins := range li.header.Instrs {
		phi, ok := ins.(*ssa.Phi)
		if !ok {
			break
		}
		old := f.regs[phi]
		nv := vc.freshValue(st, phi.Type(), "phi_"+phi.Name())
		f.regs[phi] = nv
		if phi.Comment == "rangeindex" {
			st.assume(Bin(sortBool, ">=", nv.(*Term), IntLit(-1)))
		}
		_ = old
	}
	mods := vc.loopMods(f.fn, li, map[*ssa.Function]bool{})
	if os.Getenv("VERIF_DEBUG_MODS") != "" {
		for _, m := range mods {
			fmt.Fprintf(os.Stderr, "mods %s loop%d: kind=%s heap=%s ref=%v\n", f.fn.Name(), li.ordinal, m.kind, m.heap, m.ref)
		}
	}

	// calls of function values: expand to the effects of the function literal the value is bound to on this path
	for i := 0; i < len(mods); i++ {
		m := mods[i]
		if m.kind != "call-value" {
			continue
		}
		if cl, ok := f.regs[m.ref].(*Closure); ok && cl.Fn.Blocks != nil {
			for _, im := range vc.loopMods(cl.Fn, nil, map[*ssa.Function]bool{cl.Fn: true}) {
				im.ref = nil // objects of the literal's own frame or captured cells: not resolvable from this frame
				if os.Getenv("VERIF_DEBUG_MODS") != "" {
					fmt.Fprintf(os.Stderr, "  via %s: kind=%s heap=%s\n", cl.Fn.Name(), im.kind, im.heap)
				}
				mods = append(mods, im)
			}
		}
		// any other function value: results arbitrary, heap untouched (as at the call itself)
	}
	type heapPlan struct {
		full    bool
		newOnly bool
		refs    []*Term
		refTys  []types.Type
		sort    *Sort // object sort (obj) or element sort (arr)
		arr     bool
	}
	plans := map[string]*heapPlan{}
	var order []string
	plan := func(name string, s *Sort, arr bool) *heapPlan {
		p, ok := plans[name]
		if !ok {
			p = &heapPlan{sort: s, arr: arr}
			plans[name] = p
			order = append(order, name)
		}
		return p
	}
	mapSeen := map[string]bool{}
	for _, m := range mods {
		switch m.kind {
		case "all":
			vc.havocAll(st)
			vc.note("loop %d of %s: all heaps havocked at the loop head (%s)", li.ordinal, f.fn.Name(), m.heap)
		case "obj", "arr":
			p := plan(m.heap, m.sort, m.kind == "arr")
			if m.ref != nil {
				if pv, ok := f.regs[m.ref].(*Ptr); ok && len(pv.Path) == 0 && !pv.Nil {
					p.refs = append(p.refs, pv.Base)
					var ty types.Type
					if pt, ok := m.ref.Type().Underlying().(*types.Pointer); ok {
						ty = pt.Elem()
					}
					p.refTys = append(p.refTys, ty)
					continue
				}
				if tv, ok := f.regs[m.ref].(*Term); ok && tv.Sort == sortInt {
					p.refs = append(p.refs, tv)
					var ty types.Type
					if pt, ok := m.ref.Type().Underlying().(*types.Pointer); ok {
						ty = pt.Elem()
					}
					p.refTys = append(p.refTys, ty)
					continue
				}
			}
			p.full = true
		case "obj-new", "arr-new":
			plan(m.heap, m.sort, m.kind == "arr-new").newOnly = true
		case "map", "map-new", "map-local":
			_ = T
			mh := vc.mapHeapsOf(st, m.mt)
			if m.kind == "map-local" {
				if mapSeen[mh.pn] || mapSeen["local:"+mh.pn] {
					continue
				}
				full := false
				for _, o := range mods {
					if o.kind == "map" && o.mt != nil && vc.mapHeapsOf(st, o.mt).pn == mh.pn {
						full = true
					}
				}
				if full {
					continue // handled (havocked without a frame) by the "map" entry
				}
				mapSeen["local:"+mh.pn] = true
				mapSeen["new:"+mh.pn] = true
				for _, hn := range []string{mh.pn, mh.vn, mh.nn} {
					old := st.heaps[hn]
					nh := vc.fresh(hn, old.Sort)
					vc.frameOld(st, nh, old, vc.entry.alloc)
					st.heaps[hn] = nh
				}
				vc.measureHavoc(st, m.mt)
				continue
			}
			if m.kind == "map" {
				if mapSeen[mh.pn] {
					continue
				}
				mapSeen[mh.pn] = true
				st.heaps[mh.pn] = vc.fresh(mh.pn, mh.p.Sort)
				st.heaps[mh.vn] = vc.fresh(mh.vn, mh.v.Sort)
				st.heaps[mh.nn] = vc.fresh(mh.nn, mh.n.Sort)
				vc.measureHavoc(st, m.mt)
			} else if !mapSeen[mh.pn] && !mapSeen["new:"+mh.pn] {
				mapSeen["new:"+mh.pn] = true
				for _, hn := range []string{mh.pn, mh.vn, mh.nn} {
					old := st.heaps[hn]
					nh := vc.fresh(hn, old.Sort)
					vc.frameOld(st, nh, old, allocAtEntry)
					st.heaps[hn] = nh
				}
			}
		case "chclosed":
			if !mapSeen["chclosed"] {
				mapSeen["chclosed"] = true
				old := vc.chanClosed(st)
				nh := vc.fresh("CHclosed", old.Sort)
				// channels are only ever closed, never reopened
				st.assume(T_(sortBool, fmt.Sprintf("(forall ((r Int)) (! (=> (select %s r) (select %s r)) :pattern ((select %s r))))", old.S, nh.S, nh.S)))
				st.heaps["CHclosed"] = nh
			}
		case "bufstr":
			if !mapSeen["bufstr"] {
				mapSeen["bufstr"] = true
				vc.bufHeap(st)
				st.heaps["BUFSTR"] = vc.fresh("BUFSTR", st.heaps["BUFSTR"].Sort)
			}
		case "deref-iface":
			// the object an interface-typed variable (held in a cell of this frame) points to
			done := false
			if pv, ok := f.regs[m.ref].(*Ptr); ok {
				cellT := m.ref.Type().Underlying().(*types.Pointer).Elem()
				iv := vc.unfoldSelect(vc.term(st, vc.load(st, vc.asPtr(pv, cellT)), "iface"))
				if os.Getenv("VERIF_DEBUG_MODS") != "" {
					fmt.Fprintf(os.Stderr, "deref-iface: %s\n", abbreviate(iv.S, 200))
				}
				if tag, err := strconv.Atoi(ifaceTag(iv).S); err == nil && tag > 0 && tag <= len(vc.eng.tagTypes) {
					if ppt, isPtr := vc.eng.tagTypes[tag-1].Underlying().(*types.Pointer); isPtr {
						s := T.SortOf(ppt.Elem())
						p := plan(heapName("H", s), s, false)
						p.refs = append(p.refs, ifaceVal(iv))
						p.refTys = append(p.refTys, ppt.Elem())
						done = true
					}
				}
			}
			if !done {
				vc.havocAll(st)
				vc.note("loop %d of %s: all heaps havocked at the loop head (a callback writes through an interface value of unknown dynamic type)", li.ordinal, f.fn.Name())
			}
		case "kvit":
			if mapSeen["kvit"] {
				continue
			}
			mapSeen["kvit"] = true
			vc.kvitCur(st)
			vc.kvitVis(st)
			vc.kvitSum(st)
			for _, n := range []string{"KVITcur", "KVITvis", "KVITsum"} {
				st.heaps[n] = vc.fresh(n, st.heaps[n].Sort)
			}
		case "kv":
			if mapSeen["kv"] {
				continue
			}
			mapSeen["kv"] = true
			for _, n := range kvHeapNames(st) {
				if strings.HasPrefix(n, "KVIT") {
					continue
				}
				st.heaps[n] = vc.fresh(n, st.heaps[n].Sort)
			}
		case "ghost":
			if mapSeen["g:"+m.heap] {
				continue
			}
			mapSeen["g:"+m.heap] = true
			if g, ok := vc.eng.db.Ghosts[m.heap]; ok {
				env := (&Env{vc: vc, st: st, nq: &vc.nq}).inPkg(g.Pkg)
				_, gs := env.resolveType(g.Type)
				if g.Field {
					st.heaps["GF_"+g.Name] = vc.fresh("GF_"+g.Name, T.ArrayOf(sortInt, gs))
				} else {
					st.ghosts[g.Name] = vc.fresh("G_"+g.Name, gs)
				}
			}
		}
	}
	for _, name := range order {
		p := plans[name]
		var cur *Term
		if p.arr {
			_, cur = vc.arrHeap(st, p.sort)
		} else {
			_, cur = vc.objHeap(st, p.sort)
		}
		if p.full {
			nh := vc.fresh(name, cur.Sort)
			st.heaps[name] = nh
			if !p.arr {
				if f := vc.heapFacts(nh, p.sort, st.alloc); f != nil {
					st.assume(f)
				}
			}
			continue
		}
		for i, r := range p.refs {
			fv := vc.fresh("lh", cur.Sort.Elem)
			if !p.arr && p.refTys[i] != nil {
				vc.typeFacts(st, fv, p.refTys[i])
			} else if !p.arr && p.sort.Kind == KStruct && p.sort.Go != nil {
				vc.typeFacts(st, fv, p.sort.Go)
			} else if !p.arr && p.sort.Kind == KBig {
				st.assume(And(Bin(sortBool, ">=", bigBuf(fv), IntLit(0)), Bin(sortBool, "<=", bigBuf(fv), st.alloc)))
			}
			cur = Store(cur, r, fv)
		}
		if p.newOnly {
			nh := vc.fresh(name, cur.Sort)
			vc.frameOld(st, nh, cur, allocAtEntry)
			cur = nh
		}
		vc.setHeap(st, name, cur)
	}
	// iterators advanced inside the loop
	for itv, it := range f.iters {
		adv := false
		for b := range li.body {
			for _, ins := range b.Instrs {
				if nx, ok := ins.(*ssa.Next); ok && nx.Iter == itv {
					adv = true
				}
			}
		}
		if adv {
			it.visited = vc.fresh("visited", T.ArrayOf(it.keySort, sortBool))
			vc.measureIterHavoc(st, f, itv, it)
		}
	}
	// the clock only grows
	// ghost spawn logs of go statements inside the loop
	for b := range li.body {
		for _, ins := range b.Instrs {
			if g, ok := ins.(*ssa.Go); ok {
				site := goOrdinal(g)
				cn := fmt.Sprintf("spawn%d_n", site)
				nc := vc.fresh(cn, sortInt)
				st.assume(Bin(sortBool, ">=", nc, IntLit(0)))
				st.ghosts[cn] = nc
				gargs, _ := vc.evalSpawnSorts(g)
				for j, srt := range gargs {
					an := fmt.Sprintf("spawn%d_a%d", site, j)
					st.ghosts[an] = vc.fresh(an, vc.eng.st.ArrayOf(sortInt, srt))
				}
			}
		}
	}
	// ghost call logs of contracted in-repo functions called inside the loop
	for b := range li.body {
		for _, ins := range b.Instrs {
			cc, ok := ins.(ssa.CallInstruction)
			if !ok {
				continue
			}
			callee := cc.Common().StaticCallee()
			if cm := cc.Common(); cm.IsInvoke() {
				if vc.eng.findIfaceContract(cm) != nil {
					nm := cm.Method.Name()
					nc := vc.fresh("call_"+nm+"_n", sortInt)
					if old, ok := st.ghosts["call_"+nm+"_n"]; ok {
						st.assume(Bin(sortBool, ">=", nc, old))
					} else {
						st.assume(Bin(sortBool, ">=", nc, IntLit(0)))
					}
					st.ghosts["call_"+nm+"_n"] = nc
					ts := []types.Type{cm.Value.Type()}
					for j := 0; j < cm.Signature().Params().Len(); j++ {
						ts = append(ts, cm.Signature().Params().At(j).Type())
					}
					for j, t := range ts {
						an := fmt.Sprintf("call_%s_a%d", nm, j)
						st.ghosts[an] = vc.fresh(an, vc.eng.st.ArrayOf(sortInt, vc.eng.st.SortOf(t)))
					}
				}
				continue
			}
			if callee == nil || vc.eng.contractOf(callee) == nil {
				if key := funcFieldOf(cc.Common().Value); key != "" {
					if _, has := vc.eng.db.ByField[key]; has {
						nm := key[strings.LastIndex(key, ".")+1:]
						nc := vc.fresh("call_"+nm+"_n", sortInt)
						if old, ok := st.ghosts["call_"+nm+"_n"]; ok {
							st.assume(Bin(sortBool, ">=", nc, old))
						} else {
							st.assume(Bin(sortBool, ">=", nc, IntLit(0)))
						}
						st.ghosts["call_"+nm+"_n"] = nc
						sig := cc.Common().Signature()
						for j := 0; j < sig.Params().Len(); j++ {
							an := fmt.Sprintf("call_%s_a%d", nm, j)
							st.ghosts[an] = vc.fresh(an, vc.eng.st.ArrayOf(sortInt, vc.eng.st.SortOf(sig.Params().At(j).Type())))
						}
					}
				}
				continue
			}
			cn := "call_" + callee.Name() + "_n"
			nc := vc.fresh(cn, sortInt)
			if old, ok := st.ghosts[cn]; ok {
				st.assume(Bin(sortBool, ">=", nc, old))
			} else {
				st.assume(Bin(sortBool, ">=", nc, IntLit(0)))
			}
			st.ghosts[cn] = nc
			for j, p := range callee.Params {
				an := fmt.Sprintf("call_%s_a%d", callee.Name(), j)
				st.ghosts[an] = vc.fresh(an, vc.eng.st.ArrayOf(sortInt, vc.eng.st.SortOf(p.Type())))
			}
		}
	}
	for _, m := range mods {
		if m.kind == "clock" || m.kind == "all" {
			nc := vc.fresh("clock", sortInt)
			st.assume(Bin(sortBool, ">=", nc, st.clock))
			st.clock = nc
			break
		}
	}
}

// frameOld: objects that existed before the loop keep their contents (only objects allocated
// inside the loop are written).
// localMap: the map value is one this function made itself (directly, or through a local variable that only ever
// holds maps it made).
func localMap(v ssa.Value, depth int) bool {
	if depth > 4 {
		return false
	}
	switch x := v.(type) {
	case *ssa.MakeMap:
		return true
	case *ssa.Phi:
		for _, e := range x.Edges {
			if !localMap(e, depth+1) {
				return false
			}
		}
		return len(x.Edges) > 0
	case *ssa.UnOp:
		a, ok := x.X.(*ssa.Alloc)
		if !ok || x.Op != token.MUL {
			return false
		}
		n := 0
		for _, ref := range *a.Referrers() {
			switch r := ref.(type) {
			case *ssa.Store:
				if r.Addr != a || !localMap(r.Val, depth+1) {
					return false
				}
				n++
			case *ssa.UnOp, *ssa.DebugRef:
			case *ssa.MakeClosure:
				// captured by a closure: the closure may store into it; only accept if it never does
				if fn, ok := r.Fn.(*ssa.Function); ok {
					for i, b := range r.Bindings {
						if b != a {
							continue
						}
						fv := fn.FreeVars[i]
						for _, fr := range *fv.Referrers() {
							if st, isStore := fr.(*ssa.Store); isStore && st.Addr == fv {
								return false
							}
						}
					}
				} else {
					return false
				}
			default:
				return false
			}
		}
		return n > 0
	}
	return false
}

func (vc *VC) frameOld(st *State, nh, old, allocAtEntry *Term) {
	q := fmt.Sprintf("fr%d", vc.nfresh)
	vc.nfresh++
	st.assume(T_(sortBool, fmt.Sprintf("(forall ((%s Int)) (! (=> (<= %s %s) (= (select %s %s) (select %s %s))) :pattern ((select %s %s))))",
		q, q, allocAtEntry.S, nh.S, q, old.S, q, nh.S, q)))
}

func (vc *VC) havocAll(st *State) {
	vc.nfresh++
	st.epoch = itoa(vc.nfresh)
	st.epochAlloc = st.alloc
	for name, h := range st.heaps {
		if strings.HasPrefix(name, "B_") {
			continue // boxes are immutable
		}
		nh := vc.fresh(name, h.Sort)
		st.heaps[name] = nh
		if strings.HasPrefix(name, "H_") && h.Sort.Elem != nil {
			if f := vc.heapFacts(nh, h.Sort.Elem, st.alloc); f != nil {
				st.assume(f)
			}
		}
	}
	for name, g := range st.ghosts {
		if strings.HasPrefix(name, "spawn") || strings.HasPrefix(name, "call_") {
			continue // the logs of this function's own go statements and calls: nobody else writes them
		}
		st.ghosts[name] = vc.fresh("G_"+name, g.Sort)
	}
}

// rootOf walks an address back to the object it points into.
func rootOf(v ssa.Value) ssa.Value {
	for {
		switch x := v.(type) {
		case *ssa.FieldAddr:
			v = x.X
		case *ssa.IndexAddr:
			if _, isSlice := x.X.Type().Underlying().(*types.Slice); isSlice {
				return x
			}
			v = x.X
		default:
			return v
		}
	}
}

func (vc *VC) addrTarget(addr ssa.Value, li *loopInfo) modTarget {
	T := vc.eng.st
	root := rootOf(addr)
	if ia, ok := root.(*ssa.IndexAddr); ok {
		es := T.SortOf(ia.X.Type().Underlying().(*types.Slice).Elem())
		return modTarget{heap: heapName("HA", es), sort: es, kind: "arr"}
	}
	pt, ok := root.Type().Underlying().(*types.Pointer)
	if !ok {
		return modTarget{kind: "all", heap: "store through " + root.Type().String()}
	}
	var ref ssa.Value
	suffix := ""
	if a, isAlloc := root.(*ssa.Alloc); isAlloc {
		if li != nil && !li.body[a.Block()] {
			ref = a
		} else {
			suffix = "-new" // a fresh object per iteration / per call
		}
	} else if fv, isFree := root.(*ssa.FreeVar); isFree && li != nil && addr == root {
		ref = fv // the cell of a captured variable: one known object
	} else if li != nil && addr != root {
		// a field of the object some pointer computed before the loop (or a parameter) refers to: one known object
		if ins, ok := root.(ssa.Instruction); ok && ins.Block() != nil && !li.body[ins.Block()] {
			ref = root
		} else if _, isParam := root.(*ssa.Parameter); isParam {
			ref = root
		}
	}
	if arr, isArr := pt.Elem().Underlying().(*types.Array); isArr {
		es := T.SortOf(arr.Elem())
		return modTarget{heap: heapName("HA", es), sort: es, kind: "arr" + suffix, ref: ref}
	}
	s := T.SortOf(pt.Elem())
	return modTarget{heap: heapName("H", s), sort: s, kind: "obj" + suffix, ref: ref}
}

// loopMods computes what the blocks of a loop (or, with li == nil, a whole function) may modify.
func (vc *VC) loopMods(fn *ssa.Function, li *loopInfo, visiting map[*ssa.Function]bool) []modTarget {
	var out []modTarget
	T := vc.eng.st
	for _, b := range fn.Blocks {
		if li != nil && !li.body[b] {
			continue
		}
		for _, ins := range b.Instrs {
			switch x := ins.(type) {
			case *ssa.Store:
				if _, isG := x.Addr.(*ssa.Global); isG {
					continue
				}
				out = append(out, vc.addrTarget(x.Addr, li))
			case *ssa.Alloc:
				elem := x.Type().(*types.Pointer).Elem()
				if arr, isArr := elem.Underlying().(*types.Array); isArr {
					es := T.SortOf(arr.Elem())
					out = append(out, modTarget{heap: heapName("HA", es), sort: es, kind: "arr-new"})
				} else {
					s := T.SortOf(elem)
					out = append(out, modTarget{heap: heapName("H", s), sort: s, kind: "obj-new"})
				}
			case *ssa.MapUpdate:
				if localMap(x.Map, 0) {
					// a map made by this very function: maps that existed when it was entered are not written
					out = append(out, modTarget{kind: "map-local", mt: x.Map.Type().Underlying().(*types.Map)})
				} else {
					out = append(out, modTarget{kind: "map", mt: x.Map.Type().Underlying().(*types.Map)})
				}
			case *ssa.MakeMap:
				out = append(out, modTarget{kind: "map-new", mt: x.Type().Underlying().(*types.Map)})
			case *ssa.MakeInterface:
			case *ssa.MakeSlice:
				es := T.SortOf(x.Type().Underlying().(*types.Slice).Elem())
				out = append(out, modTarget{heap: heapName("HA", es), sort: es, kind: "arr-new"})
			case *ssa.Convert:
				if T.SortOf(x.Type()).Kind == KSlice && T.SortOf(x.X.Type()).Kind == KStr {
					out = append(out, modTarget{heap: heapName("HA", sortInt), sort: sortInt, kind: "arr-new"})
				}
			case ssa.CallInstruction:
				if _, isGo := x.(*ssa.Go); isGo {
					continue
				}
				out = append(out, vc.callMods(fn, x.Common(), li, visiting)...)
			}
		}
	}
	return out
}

// ---------------------------------------------------------------------------
// loop invariants

func (vc *VC) loopInvariants(st *State, f *Frame, li *loopInfo, mode string) {
	c := f.contract
	var clauses []*Clause
	if c != nil {
		clauses = c.LoopInv[li.ordinal]
	}
	env := vc.envFor(st, f)
	env.frame = f
	env.loop = li
	env.old = vc.entry
	if len(st.frames) > 1 {
		env.old = nil
	}
	env.loopEntry = f.loopEntry[li.header]
	for _, cl := range clauses {
		t, err := env.EvalBool(cl.E)
		if err != nil {
			if mode != "assume" && len(st.frames) == 1 {
				vc.unprovable(fmt.Sprintf("%s/loop%d[%s]", mode, li.ordinal, cl.Label), vc.clauseProps(c, cl), vc.posOf(li.header.Instrs[0].Pos()), err)
			} else if len(st.frames) > 1 {
				vc.eng.specError(fmt.Sprintf("%s: loop %d invariant [%s]: %v", f.fn, li.ordinal, cl.Label, err))
			}
			continue
		}
		switch mode {
		case "assume":
			st.assume(t)
		default:
			vc.oblige(st, fmt.Sprintf("%s/loop%d[%s]", mode, li.ordinal, cl.Label), t, vc.clauseProps(c, cl), vc.posOf(li.header.Instrs[0].Pos()))
		}
	}
	// automatic invariant for hidden range indices: idx >= -1
	for _, ins := range li.header.Instrs {
		phi, ok := ins.(*ssa.Phi)
		if !ok {
			break
		}
		if phi.Comment == "rangeindex" {
			t, ok := f.regs[phi].(*Term)
			if !ok {
				continue
			}
			inv := Bin(sortBool, ">=", t, IntLit(-1))
			// upper bound: the loop test "phi+1 < n" with n defined outside the loop gives phi < n
			if n := rangeBound(li, phi); n != nil {
				if nv, ok := f.regs[n].(*Term); ok {
					inv = And(inv, Bin(sortBool, "<", t, Ite(Bin(sortBool, ">=", nv, IntLit(0)), nv, IntLit(0))))
				}
			}
			if mode == "assume" {
				st.assume(inv)
			} else {
				vc.oblige(st, fmt.Sprintf("%s/loop%d[rangeindex-bounds]", mode, li.ordinal), inv, vc.props, vc.posOf(phi.Pos()))
			}
		}
	}
	if mode == "inv-entry" && len(clauses) == 0 && c != nil && len(st.frames) == 1 {
		vc.note("loop %d of %s has no invariant: cut with 'true'", li.ordinal, f.fn.Name())
	}
}

// rangeBound finds n in the loop test "(phi + 1) < n" of a rangeindex loop.
func rangeBound(li *loopInfo, phi *ssa.Phi) ssa.Value {
	for _, ins := range li.header.Instrs {
		cmp, ok := ins.(*ssa.BinOp)
		if !ok || cmp.Op != token.LSS {
			continue
		}
		inc, ok := cmp.X.(*ssa.BinOp)
		if !ok || inc.Op != token.ADD || inc.X != phi {
			continue
		}
		if k, ok := inc.Y.(*ssa.Const); !ok || k.Int64() != 1 {
			continue
		}
		if y, ok := cmp.Y.(ssa.Instruction); ok && li.body[y.Block()] {
			continue
		}
		return cmp.Y
	}
	return nil
}

func (vc *VC) clauseProps(c *Contract, cl *Clause) []string {
	if len(cl.Props) > 0 {
		return cl.Props
	}
	if c != nil && len(c.Props) > 0 {
		return c.Props
	}
	return vc.props
}

// localByName resolves a source-level local of the frame: a parameter, a header phi of the
// current loop, a variable bound once, or a variable living in a cell (read in the current state).
func (vc *VC) localByName(env *Env, name string) (SV, bool) {
	f := env.frame
	// a variable that is reassigned in the current loop is its header phi (under old(...), a
	// parameter denotes its entry value instead)
	isParam := false
	for _, p := range f.fn.Params {
		if p.Name() == name {
			isParam = true
		}
	}
	if env.loop != nil && !(env.inOld && isParam) {
		for _, ins := range env.loop.header.Instrs {
			if phi, ok := ins.(*ssa.Phi); ok && phi.Comment == name {
				if v, ok := f.regs[phi]; ok {
					return SV{vc.term(env.st, v, "spec"), phi.Type()}, true
				}
			}
		}
	}
	for _, p := range f.fn.Params {
		if p.Name() == name {
			if v, ok := f.regs[p]; ok {
				return SV{vc.term(env.st, v, "spec"), p.Type()}, true
			}
		}
	}
	for _, fv := range f.fn.FreeVars {
		if fv.Name() == name {
			if v, ok := f.regs[fv]; ok {
				// free variables are pointers to the captured variable
				pt := fv.Type().Underlying().(*types.Pointer).Elem()
				p := vc.asPtr(v, pt)
				return SV{vc.load(env.st, p), pt}, true
			}
		}
	}
	if env.loop != nil {
		if name == "rangeidx" {
			for _, ins := range env.loop.header.Instrs {
				if phi, ok := ins.(*ssa.Phi); ok && phi.Comment == "rangeindex" {
					if v, ok := f.regs[phi].(*Term); ok {
						return SV{Bin(sortInt, "+", v, IntLit(1)), types.Typ[types.Int]}, true
					}
				}
			}
		}
		if name == "visited" {
			for itv, it := range f.iters {
				for b := range env.loop.body {
					for _, ins := range b.Instrs {
						if nx, ok := ins.(*ssa.Next); ok && nx.Iter == itv {
							return SV{it.visited, nil}, true
						}
					}
				}
			}
		}
		for _, ins := range env.loop.header.Instrs {
			if phi, ok := ins.(*ssa.Phi); ok && phi.Comment == name {
				if v, ok := f.regs[phi]; ok {
					return SV{vc.term(env.st, v, "spec"), phi.Type()}, true
				}
			}
		}
	}
	// a variable that lives in a cell (address taken, named result, assigned in several places): read the cell
	for _, b := range f.fn.Blocks {
		for _, ins := range b.Instrs {
			if a, ok := ins.(*ssa.Alloc); ok && a.Comment == name {
				if v, ok := f.regs[a]; ok {
					pt := a.Type().(*types.Pointer).Elem()
					return SV{vc.load(env.st, vc.asPtr(v, pt)), pt}, true
				}
			}
		}
	}
	// the value most recently bound to the variable along this path
	if v, ok := vc.boundValue(f, env.loop, name); ok {
		if _, have := f.regs[v]; have {
			return SV{vc.term(env.st, f.regs[v], "spec"), v.Type()}, true
		}
		if c, isConst := v.(*ssa.Const); isConst {
			return SV{vc.term(env.st, vc.constValue(c), "spec"), v.Type()}, true
		}
	}
	refs := vc.eng.debugRefs(f.fn)[name]
	var cand ssa.Value
	isAddr := false
	for _, d := range refs {
		if _, have := f.regs[d.X]; !have {
			if _, isConst := d.X.(*ssa.Const); !isConst {
				continue
			}
		}
		if cand != nil && cand != d.X {
			// several bindings: prefer the cell (address) if any, otherwise ambiguous
			if d.IsAddr {
				cand, isAddr = d.X, true
			}
			continue
		}
		cand, isAddr = d.X, d.IsAddr
	}
	if cand == nil {
		// named result / local cell by Alloc comment
		for _, b := range f.fn.Blocks {
			for _, ins := range b.Instrs {
				if a, ok := ins.(*ssa.Alloc); ok && a.Comment == name {
					if v, ok := f.regs[a]; ok {
						pt := a.Type().(*types.Pointer).Elem()
						return SV{vc.load(env.st, vc.asPtr(v, pt)), pt}, true
					}
				}
			}
		}
		return SV{}, false
	}
	v := vc.value(env.st, f, cand)
	if isAddr {
		pt := cand.Type().Underlying().(*types.Pointer).Elem()
		return SV{vc.load(env.st, vc.asPtr(v, pt)), pt}, true
	}
	return SV{vc.term(env.st, v, "spec"), cand.Type()}, true
}

// cellBacked: the source variable lives in a memory cell (captured by a closure, address taken, named result):
// its current value is what the cell holds, not the value some assignment stored there earlier.
func (e *Engine) cellBacked(fn *ssa.Function, name string) bool {
	key := fn.String() + "\x00" + name
	if v, ok := e.cellVars[key]; ok {
		return v
	}
	r := false
	for _, fv := range fn.FreeVars {
		if fv.Name() == name {
			r = true
		}
	}
	for _, b := range fn.Blocks {
		for _, ins := range b.Instrs {
			if a, ok := ins.(*ssa.Alloc); ok && a.Comment == name {
				r = true
			}
		}
	}
	e.cellVars[key] = r
	return r
}

// boundValue: the SSA value most recently bound to the source variable called name. When several
// declared variables share the name (shadowing), one declared inside the loop whose invariant is
// being evaluated cannot be meant: at the loop header only the outer one is in scope.
func (vc *VC) boundValue(f *Frame, li *loopInfo, name string) (ssa.Value, bool) {
	if f == nil || f.names == nil {
		return nil, false
	}
	if li != nil {
		var objs []types.Object
		seen := map[types.Object]bool{}
		for _, d := range vc.eng.debugRefs(f.fn)[name] {
			if o := d.Object(); o != nil && !seen[o] {
				seen[o] = true
				objs = append(objs, o)
			}
		}
		if len(objs) > 1 {
			lo, hi := vc.eng.loopSpan(li)
			var outer []types.Object
			for _, o := range objs {
				if !(lo.IsValid() && o.Pos() >= lo && o.Pos() <= hi) {
					outer = append(outer, o)
				}
			}
			if len(outer) == 1 {
				v, ok := f.objs[outer[0]]
				return v, ok
			}
		}
	}
	if li != nil {
		// a variable assigned just before the loop and not changed by it: the merge after the loop says which value
		// flows out of the loop header (debug information only records a value where the variable is read)
		for _, succ := range li.header.Succs {
			if li.body[succ] {
				continue
			}
			for _, ins := range succ.Instrs {
				phi, isPhi := ins.(*ssa.Phi)
				if !isPhi {
					break
				}
				if phi.Comment != name {
					continue
				}
				for i, p := range succ.Preds {
					if p == li.header && i < len(phi.Edges) {
						if _, have := f.regs[phi.Edges[i]]; have {
							return phi.Edges[i], true
						}
					}
				}
			}
		}
	}
	v, ok := f.names[name]
	return v, ok
}

// loopSpan: the source range covered by the instructions of a loop's blocks.
func (e *Engine) loopSpan(li *loopInfo) (lo, hi token.Pos) {
	if li.spanDone {
		return li.lo, li.hi
	}
	for b := range li.body {
		for _, ins := range b.Instrs {
			if _, dbg := ins.(*ssa.DebugRef); dbg {
				continue
			}
			p := ins.Pos()
			if !p.IsValid() {
				continue
			}
			if !lo.IsValid() || p < lo {
				lo = p
			}
			if p > hi {
				hi = p
			}
		}
	}
	// widen to the enclosing for/range statement of the source, so that variables declared by
	// the statement's own clause count as declared inside the loop
	if syn := li.header.Parent().Syntax(); syn != nil && lo.IsValid() {
		var best ast.Node
		ast.Inspect(syn, func(n ast.Node) bool {
			switch n.(type) {
			case *ast.ForStmt, *ast.RangeStmt:
				if n.Pos() <= lo && hi <= n.End() && (best == nil || n.End()-n.Pos() < best.End()-best.Pos()) {
					best = n
				}
			}
			return true
		})
		if best != nil {
			lo, hi = best.Pos(), best.End()
		}
	}
	li.lo, li.hi, li.spanDone = lo, hi, true
	return
}

func (e *Engine) debugRefs(fn *ssa.Function) map[string][]*ssa.DebugRef {
	if m, ok := e.dbgRefs[fn]; ok {
		return m
	}
	m := map[string][]*ssa.DebugRef{}
	for _, b := range fn.Blocks {
		for _, ins := range b.Instrs {
			if d, ok := ins.(*ssa.DebugRef); ok {
				if obj := d.Object(); obj != nil {
					m[obj.Name()] = append(m[obj.Name()], d)
				}
			}
		}
	}
	e.dbgRefs[fn] = m
	return m
}

// constGlobal: the constant a global is initialised with, when no other store to it exists.
func (e *Engine) constGlobal(g *ssa.Global) *ssa.Const {
	if c, ok := e.constGlobals[g]; ok {
		return c
	}
	var found *ssa.Const
	stores := 0
	var scan func(fn *ssa.Function)
	seen := map[*ssa.Function]bool{}
	scan = func(fn *ssa.Function) {
		if fn == nil || seen[fn] {
			return
		}
		seen[fn] = true
		for _, b := range fn.Blocks {
			for _, ins := range b.Instrs {
				if st, ok := ins.(*ssa.Store); ok && st.Addr == g {
					stores++
					if c, ok := st.Val.(*ssa.Const); ok && fn.Name() == "init" {
						found = c
					} else {
						found = nil
						stores += 100
					}
				}
			}
		}
		for _, an := range fn.AnonFuncs {
			scan(an)
		}
	}
	for _, m := range g.Pkg.Members {
		switch x := m.(type) {
		case *ssa.Function:
			scan(x)
		case *ssa.Type:
			for _, t := range []types.Type{x.Type(), types.NewPointer(x.Type())} {
				ms := e.prog.MethodSets.MethodSet(t)
				for i := 0; i < ms.Len(); i++ {
					scan(e.prog.MethodValue(ms.At(i)))
				}
			}
		}
	}
	if stores != 1 {
		found = nil
	}
	e.constGlobals[g] = found
	return found
}

// goOrdinal: the ordinal of a go statement among the go statements of its function (source order).
func goOrdinal(g *ssa.Go) int {
	n := 0
	for _, b := range g.Parent().Blocks {
		for _, ins := range b.Instrs {
			if x, ok := ins.(*ssa.Go); ok {
				if x == g {
					return n
				}
				n++
			}
		}
	}
	return -1
}

// logSpawn appends to the ghost spawn log of a go statement: spawncount(site) goroutines were
// started there so far; spawnarg(site, j)[k] is argument j of the k-th of them.
func (vc *VC) logSpawn(st *State, f *Frame, g *ssa.Go, args []Value) {
	site := goOrdinal(g)
	cn := fmt.Sprintf("spawn%d_n", site)
	cnt, ok := st.ghosts[cn]
	if !ok {
		cnt = IntLit(0)
	}
	for j, a := range args {
		at := vc.term(st, a, "spawn")
		an := fmt.Sprintf("spawn%d_a%d", site, j)
		arr, ok := st.ghosts[an]
		if !ok {
			arr = vc.eng.st.Zero(vc.eng.st.ArrayOf(sortInt, at.Sort))
		}
		st.ghosts[an] = Store(arr, cnt, at)
	}
	st.ghosts[cn] = Bin(sortInt, "+", cnt, IntLit(1))
}

func (vc *VC) evalSpawnSorts(g *ssa.Go) ([]*Sort, bool) {
	var out []*Sort
	c := &g.Call
	if c.IsInvoke() {
		out = append(out, sortIface)
	}
	for _, t := range spawnSlotTypes(g) {
		out = append(out, vc.eng.st.SortOf(t))
	}
	return out, true
}

// spawnSlotTypes: what a go statement hands to the goroutine it starts: the call arguments, followed
// by the variables a function literal captures (their values at the time of the go statement).
func spawnSlotTypes(g *ssa.Go) []types.Type {
	var out []types.Type
	for _, a := range g.Call.Args {
		out = append(out, a.Type())
	}
	if mc, ok := g.Call.Value.(*ssa.MakeClosure); ok {
		for _, fv := range mc.Fn.(*ssa.Function).FreeVars {
			out = append(out, fv.Type().Underlying().(*types.Pointer).Elem())
		}
	}
	return out
}

func (vc *VC) spawnValues(st *State, fnv Value, args []Value) []Value {
	out := append([]Value{}, args...)
	if cl, ok := fnv.(*Closure); ok {
		for i, fv := range cl.Fn.FreeVars {
			if i >= len(cl.Bind) {
				break
			}
			pt := fv.Type().Underlying().(*types.Pointer).Elem()
			out = append(out, vc.load(st, vc.asPtr(cl.Bind[i], pt)))
		}
	}
	return out
}

// checkSpawnRequires: the preconditions of a function literal started as a goroutine are checked
// where it is started, over its arguments and the current values of the variables it captures.
func (vc *VC) checkSpawnRequires(st *State, f *Frame, g *ssa.Go, fnv Value, args []Value) {
	cl, ok := fnv.(*Closure)
	if !ok {
		return
	}
	ct := vc.eng.contractOf(cl.Fn)
	if ct == nil || len(ct.Requires) == 0 {
		return
	}
	env := vc.contractEnv(st, ct, cl.Fn.Signature, args, cl.Fn, "func")
	for i, fv := range cl.Fn.FreeVars {
		if i >= len(cl.Bind) {
			break
		}
		pt := fv.Type().Underlying().(*types.Pointer).Elem()
		env.bind(fv.Name(), SV{V: vc.term(st, vc.load(st, vc.asPtr(cl.Bind[i], pt)), fv.Name()), T: pt})
	}
	for _, rq := range ct.Requires {
		t, err := env.EvalBool(rq.E)
		if err != nil {
			vc.eng.specError(fmt.Sprintf("%s: requires of %s at its go statement: %v", vc.fn, cl.Fn, err))
			continue
		}
		vc.oblige(st, fmt.Sprintf("pre[%s]@go#%d", rq.Label, goOrdinal(g)), t, ct.Props, vc.posOf(g.Pos()))
	}
}
