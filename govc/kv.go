package main

import (
	"fmt"
	"go/types"
	"strings"

	"golang.org/x/tools/go/ssa"
)

// Model of the persistent driver's storage layer (pool/store/badger): the badger database as a
// ghost key-value state, transactions with commit/rollback, and the driver's four helpers
// (getItem, setItem, setExpiringItem, hasKey) as built-in models.
//
//   KVhas  : Array Str Bool        the key has an entry (expired or not)
//   KVexp  : Array Str Int         expiry instant of the entry (ghost clock units), 0 = never
//   KV_<S> : Array Str <S>         the stored value, per Go type S the key is read and written with
//   KVMh_<M>, KVMv_<M>, KVMn_<M>   stored maps: presence array, value array and size per key
//
// An entry is live at clock t when it exists and has not expired. One database per process (the
// driver holds exactly one *badger.DB). What is assumed about badger and gob, and listed in the
// evidence of every run that uses the model:
//   - DB.Update(fn) applies fn's writes atomically iff fn returns nil and the commit succeeds,
//     and leaves the database untouched otherwise; DB.View(fn) never changes it
//   - a value written with setItem under a key is what getItem under the same key decodes, with
//     gob's rule that zero-valued struct fields are not transmitted (they keep whatever the
//     destination held before)
//   - an entry written with a TTL stops being visible at some instant in the last second before the TTL has elapsed
//     (badger stores expiry instants in whole seconds)
//   - no time passes between the clock readings of one store method (the ghost clock value of the
//     last time.Now() is the instant the transaction sees)

const badgerDrv = vipnodeMod + "/pool/store/badger"
const badgerLib = "github.com/dgraph-io/badger/v2"

func (vc *VC) kvHas(st *State) *Term {
	return vc.heap(st, "KVhas", vc.eng.st.ArrayOf(sortStr, sortBool))
}
func (vc *VC) kvExp(st *State) *Term {
	return vc.heap(st, "KVexp", vc.eng.st.ArrayOf(sortStr, sortInt))
}
func (vc *VC) kvVal(st *State, s *Sort) (string, *Term) {
	name := "KV_" + smtName(s.Name)
	return name, vc.heap(st, name, vc.eng.st.ArrayOf(sortStr, s))
}

type kvMapHeaps struct {
	hn, vn, nn string
	h, v, n    *Term
	k, e       *Sort
}

func (vc *VC) kvMap(st *State, mt *types.Map) kvMapHeaps {
	ST := vc.eng.st
	k, e := ST.SortOf(mt.Key()), ST.SortOf(mt.Elem())
	suffix := smtName(shortTypeName(mt.Key())) + "_" + smtName(shortTypeName(mt.Elem()))
	r := kvMapHeaps{hn: "KVMh_" + suffix, vn: "KVMv_" + suffix, nn: "KVMn_" + suffix, k: k, e: e}
	r.h = vc.heap(st, r.hn, ST.ArrayOf(sortStr, ST.ArrayOf(k, sortBool)))
	r.v = vc.heap(st, r.vn, ST.ArrayOf(sortStr, ST.ArrayOf(k, e)))
	r.n = vc.heap(st, r.nn, ST.ArrayOf(sortStr, sortInt))
	return r
}

// kvLive: the entry exists and has not expired at the last clock reading.
func (vc *VC) kvLive(st *State, key *Term) *Term {
	has := Select(vc.kvHas(st), key, sortBool)
	exp := Select(vc.kvExp(st), key, sortInt)
	return And(has, Or(Eq(exp, IntLit(0)), Bin(sortBool, "<", st.clock, exp)))
}

// kvKey turns the []byte key argument back into the string it was converted from.
func (vc *VC) kvKey(st *State, v Value) *Term {
	s := vc.term(st, v, "key")
	_, h := vc.arrHeap(st, sortInt)
	arr := Select(h, sliceArr(s), vc.eng.st.ArrayOf(sortInt, sortInt))
	raw := App(sortStr, "bytes2str", arr, sliceOff(s), sliceLen(s))
	if len(st.strConvs) == 0 {
		return raw
	}
	// name the key, and say which string it is when the slice is (still) one of the []byte(string)
	// conversions made on this path: the arrays they allocated are not written by the driver
	key := vc.fresh("dbkey", sortStr)
	st.assume(Eq(key, raw))
	for _, c := range st.strConvs {
		whole := And(Eq(sliceArr(s), c.ref), Eq(sliceOff(s), IntLit(0)), Eq(sliceLen(s), App(sortInt, "strlen", c.str)),
			Eq(arr, App(vc.eng.st.ArrayOf(sortInt, sortInt), "str2arr", c.str)))
		st.assume(Implies(whole, Eq(key, c.str)))
	}
	return key
}

// kvInto: the object a "into interface{}" / "val interface{}" argument points to.
func (vc *VC) kvInto(st *State, c *ssa.CallCommon, idx int) (*Ptr, types.Type) {
	mi, ok := c.Args[idx].(*ssa.MakeInterface)
	if !ok {
		refuse("%s: the value argument is not a pointer boxed at the call site", c.Value.Name())
	}
	pt, ok := mi.X.Type().Underlying().(*types.Pointer)
	if !ok {
		refuse("%s: the value argument is not a pointer", c.Value.Name())
	}
	pv := vc.value(st, vc.curFrame, mi.X)
	return vc.asPtr(pv, pt.Elem()), pt.Elem()
}

func (vc *VC) badgerErr(st *State, name string) *Term {
	pkg := vc.eng.prog.ImportedPackage(badgerLib)
	if pkg == nil {
		refuse("package %s is not loaded", badgerLib)
	}
	g, ok := pkg.Members[name].(*ssa.Global)
	if !ok {
		refuse("%s.%s not found", badgerLib, name)
	}
	return vc.term(st, vc.loadGlobal(st, g), name)
}

// maybeExtError: nil or an error of a dependency-defined dynamic type.
func (vc *VC) maybeExtError(st *State, hint string) *Term {
	e := vc.fresh(hint, sortIface)
	ext := IntLit(int64(vc.eng.tagOf(types.NewPointer(types.Typ[types.Invalid]))))
	st.assume(Or(And(Eq(ifaceTag(e), IntLit(0)), Eq(ifaceVal(e), IntLit(0))), Eq(ifaceTag(e), ext)))
	st.assume(Bin(sortBool, "<=", ifaceVal(e), st.alloc))
	return e
}

// gobZero: the value is not transmitted by gob when it is a struct field.
func (vc *VC) gobZero(v *Term, t types.Type) *Term {
	ST := vc.eng.st
	s := ST.SortOf(t)
	switch s.Kind {
	case KBig:
		return Eq(bigVal(v), IntLit(0))
	case KSlice:
		return Eq(sliceLen(v), IntLit(0))
	case KStruct:
		if stt, ok := types.Unalias(t).Underlying().(*types.Struct); ok && len(s.Fields) == stt.NumFields() {
			var cs []*Term
			for i := 0; i < stt.NumFields(); i++ {
				cs = append(cs, vc.gobZero(App(s.Fields[i].Sort, s.Fields[i].Sel, v), stt.Field(i).Type()))
			}
			return And(cs...)
		}
	}
	return Eq(v, ST.Zero(s))
}

// gobMerge: what decoding "stored" into a destination currently holding "old" leaves there.
func (vc *VC) gobMerge(old, stored *Term, t types.Type, top bool) *Term {
	ST := vc.eng.st
	s := ST.SortOf(t)
	if old.S == ST.Zero(s).S {
		return stored // decoding into a zero value: omitted fields are zero on both sides
	}
	if s.Kind == KStruct {
		if stt, ok := types.Unalias(t).Underlying().(*types.Struct); ok && len(s.Fields) == stt.NumFields() {
			var fs []*Term
			for i := 0; i < stt.NumFields(); i++ {
				fo := App(s.Fields[i].Sort, s.Fields[i].Sel, old)
				fn := App(s.Fields[i].Sort, s.Fields[i].Sel, stored)
				fs = append(fs, vc.gobMerge(fo, fn, stt.Field(i).Type(), false))
			}
			return App(s, s.Ctor, fs...)
		}
	}
	if top {
		return stored // a top-level non-struct value is always transmitted
	}
	return Ite(vc.gobZero(stored, t), old, stored)
}

// kvTypeCheck: every key format is read and written with one Go type only.
func (vc *VC) kvTypeCheck(key *Term, s string) {
	if !strings.HasPrefix(key.S, "(keyfn_") {
		return
	}
	id := key.S[1:strings.Index(key.S, " ")]
	if prev, ok := vc.eng.kvTypes[id]; ok && prev != s {
		vc.eng.specError(fmt.Sprintf("database keys of format %s are used with two value types: %s and %s", id, prev, s))
	}
	vc.eng.kvTypes[id] = s
}

func kvGetItem(vc *VC, st *State, c *ssa.CallCommon, args []Value, pos string) Value {
	ST := vc.eng.st
	key := vc.kvKey(st, args[1])
	p, et := vc.kvInto(st, c, 2)
	live := vc.kvLive(st, key)
	notFound := vc.badgerErr(st, "ErrKeyNotFound")
	err := vc.maybeExtError(st, "r_getItem_err")
	st.assume(Implies(Not(live), Eq(err, notFound)))
	st.assume(Implies(live, Not(Eq(err, notFound))))
	ok := Eq(ifaceTag(err), IntLit(0))
	vc.note("getItem/setItem/setExpiringItem/hasKey of the badger driver are modelled over a ghost key-value state (gob round trip, zero fields not transmitted, TTL expiry at the last clock reading)")
	if mt, isMap := types.Unalias(et).Underlying().(*types.Map); isMap {
		vc.kvTypeCheck(key, "map:"+types.TypeString(mt, nil))
		km := vc.kvMap(st, mt)
		sh := Select(km.h, key, ST.ArrayOf(km.k, sortBool))
		sv := Select(km.v, key, ST.ArrayOf(km.k, km.e))
		sn := Select(km.n, key, sortInt)
		old := vc.term(st, vc.load(st, p), "into")
		mh := vc.mapHeapsOf(st, mt)
		// decoding allocates a map when the destination is nil and adds the stored entries to it otherwise
		fresh := vc.newRef(st, "decmap")
		dst := Ite(Eq(old, IntLit(0)), fresh, old)
		oldP := Select(mh.p, old, ST.ArrayOf(km.k, sortBool))
		oldV := Select(mh.v, old, ST.ArrayOf(km.k, km.e))
		np := vc.fresh("decP", ST.ArrayOf(km.k, sortBool))
		nv := vc.fresh("decV", ST.ArrayOf(km.k, km.e))
		nn := vc.fresh("decN", sortInt)
		q := fmt.Sprintf("dk%d", vc.nfresh)
		vc.nfresh++
		oldEmpty := Or(Eq(old, IntLit(0)), Eq(Select(mh.n, old, sortInt), IntLit(0)))
		st.assume(T(sortBool, fmt.Sprintf("(forall ((%s %s)) (! (= (select %s %s) (or (select %s %s) (and (not (= %s 0)) (select %s %s)))) :pattern ((select %s %s))))",
			q, km.k.Name, np.S, q, sh.S, q, old.S, oldP.S, q, np.S, q)))
		st.assume(T(sortBool, fmt.Sprintf("(forall ((%s %s)) (! (= (select %s %s) (ite (select %s %s) (select %s %s) (select %s %s))) :pattern ((select %s %s))))",
			q, km.k.Name, nv.S, q, sh.S, q, sv.S, q, oldV.S, q, nv.S, q)))
		st.assume(Bin(sortBool, ">=", nn, IntLit(0)))
		st.assume(Implies(oldEmpty, And(Eq(nn, sn), Eq(np, sh))))
		st.assume(Bin(sortBool, ">=", sn, IntLit(0)))
		// on success the destination map holds the merged contents; otherwise nothing was decoded
		vc.setHeap(st, mh.pn, Ite(ok, Store(mh.p, dst, np), mh.p))
		vc.setHeap(st, mh.vn, Ite(ok, Store(mh.v, dst, nv), mh.v))
		vc.setHeap(st, mh.nn, Ite(ok, Store(mh.n, dst, nn), mh.n))
		vc.measureHavocAt(st, mt, dst)
		vc.store(st, p, Ite(ok, dst, old))
		return err
	}
	s := ST.SortOf(et)
	vc.kvTypeCheck(key, s.Name)
	_, h := vc.kvVal(st, s)
	stored := Select(h, key, s)
	old := vc.term(st, vc.load(st, p), "into")
	merged := vc.gobMerge(old, stored, et, true)
	garbage := vc.fresh("partial", s)
	vc.typeFacts(st, garbage, et)
	vc.store(st, p, Ite(ok, merged, Ite(live, garbage, old)))
	return err
}

// kvWrite: setItem / setExpiringItem; exp is the expiry instant (0 = never).
func kvWrite(vc *VC, st *State, c *ssa.CallCommon, args []Value, exp *Term) Value {
	ST := vc.eng.st
	key := vc.kvKey(st, args[1])
	p, et := vc.kvInto(st, c, 2)
	err := vc.maybeExtError(st, "r_setItem_err")
	ok := Eq(ifaceTag(err), IntLit(0))
	vc.note("getItem/setItem/setExpiringItem/hasKey of the badger driver are modelled over a ghost key-value state (gob round trip, zero fields not transmitted, TTL expiry at the last clock reading)")
	has, ex := vc.kvHas(st), vc.kvExp(st)
	vc.setHeap(st, "KVhas", Ite(ok, Store(has, key, tTrue), has))
	vc.setHeap(st, "KVexp", Ite(ok, Store(ex, key, exp), ex))
	if mt, isMap := types.Unalias(et).Underlying().(*types.Map); isMap {
		vc.kvTypeCheck(key, "map:"+types.TypeString(mt, nil))
		km := vc.kvMap(st, mt)
		m := vc.term(st, vc.load(st, p), "val")
		mh := vc.mapHeapsOf(st, mt)
		vc.setHeap(st, km.hn, Ite(ok, Store(km.h, key, Select(mh.p, m, ST.ArrayOf(km.k, sortBool))), km.h))
		vc.setHeap(st, km.vn, Ite(ok, Store(km.v, key, Select(mh.v, m, ST.ArrayOf(km.k, km.e))), km.v))
		vc.setHeap(st, km.nn, Ite(ok, Store(km.n, key, Ite(Eq(m, IntLit(0)), IntLit(0), Select(mh.n, m, sortInt))), km.n))
		return err
	}
	s := ST.SortOf(et)
	vc.kvTypeCheck(key, s.Name)
	name, h := vc.kvVal(st, s)
	v := vc.term(st, vc.load(st, p), "val")
	if isNamed(et, vipnodeMod+"/pool/store", "Balance") {
		// the ledger total: sum of Credit over the live balance and trial entries
		wasLive := And(Select(has, key, sortBool), Or(Eq(Select(ex, key, sortInt), IntLit(0)), Bin(sortBool, "<", st.clock, Select(ex, key, sortInt))))
		oldC := Ite(wasLive, vc.balanceCredit(Select(h, key, s), s), IntLit(0))
		sums := vc.kvSums(st)
		ks := App(sortInt, "keyspace", key)
		delta := Bin(sortInt, "-", vc.balanceCredit(v, s), oldC)
		vc.setHeap(st, "KVsum", Ite(And(ok, vc.isLedgerKey(key)), Store(sums, ks, Bin(sortInt, "+", Select(sums, ks, sortInt), delta)), sums))
	}
	vc.setHeap(st, name, Ite(ok, Store(h, key, v), h))
	return err
}

// kvSums: per key space, the sum of Credit over its live entries (maintained for the two ledger key spaces)
func (vc *VC) kvSums(st *State) *Term {
	return vc.heap(st, "KVsum", vc.eng.st.ArrayOf(sortInt, sortInt))
}

// kvSum: the ledger total
func (vc *VC) kvSum(st *State) *Term {
	s := vc.kvSums(st)
	return Bin(sortInt, "+", Select(s, IntLit(int64(vc.eng.keyPrefixID("vip:balance:"))), sortInt), Select(s, IntLit(int64(vc.eng.keyPrefixID("vip:trial:"))), sortInt))
}

// isLedgerKey: the key belongs to one of the two key spaces whose Credit fields make up the ledger total.
func (vc *VC) isLedgerKey(key *Term) *Term {
	vc.declareFun("keyspace", []*Sort{sortStr}, sortInt)
	ks := App(sortInt, "keyspace", key)
	return Or(Eq(ks, IntLit(int64(vc.eng.keyPrefixID("vip:balance:")))), Eq(ks, IntLit(int64(vc.eng.keyPrefixID("vip:trial:")))))
}

func (vc *VC) balanceCredit(b *Term, s *Sort) *Term {
	for _, f := range s.Fields {
		if f.Name == "Credit" {
			return bigVal(App(f.Sort, f.Sel, b))
		}
	}
	refuse("store.Balance has no Credit field")
	return nil
}

func init() {
	kvHandlers := map[string]handler{
		badgerDrv + ".getItem": kvGetItem,
		badgerDrv + ".setItem": func(vc *VC, st *State, c *ssa.CallCommon, args []Value, pos string) Value {
			return kvWrite(vc, st, c, args, IntLit(0))
		},
		badgerDrv + ".setExpiringItem": func(vc *VC, st *State, c *ssa.CallCommon, args []Value, pos string) Value {
			ttl := vc.term(st, args[3], "ttl")
			// badger keeps the expiry instant in whole seconds (Entry.WithTTL: uint64(now.Add(ttl).Unix())): the entry
			// disappears somewhere in the second before now+ttl. A non-positive TTL means the entry does not expire.
			e := vc.fresh("expiry", sortInt)
			due := Bin(sortInt, "+", st.clock, ttl)
			st.assume(And(Bin(sortBool, ">", e, Bin(sortInt, "-", due, IntLit(1000000000))), Bin(sortBool, "<=", e, due)))
			exp := Ite(Bin(sortBool, ">", ttl, IntLit(0)), e, IntLit(0))
			return kvWrite(vc, st, c, args, exp)
		},
		badgerDrv + ".hasKey": func(vc *VC, st *State, c *ssa.CallCommon, args []Value, pos string) Value {
			vc.note("getItem/setItem/setExpiringItem/hasKey of the badger driver are modelled over a ghost key-value state (gob round trip, zero fields not transmitted, TTL expiry at the last clock reading)")
			return vc.kvLive(st, vc.kvKey(st, args[1]))
		},
		"(*" + badgerLib + ".Txn).Delete": func(vc *VC, st *State, c *ssa.CallCommon, args []Value, pos string) Value {
			// the transaction keeps the key slice until it commits: it must not be one the iterator lent out
			// (Item.Key is valid only until Next; Item.KeyCopy hands out a copy)
			if ks, isTerm := vc.term(st, args[1], "key").Sort, true; isTerm && ks != nil {
				kt := vc.term(st, args[1], "key")
				for _, cv := range st.strConvs {
					if cv.borrowed {
						vc.oblige(st, "kv:keeps-a-key-the-iterator-only-lent@"+vc.site(), Not(Eq(sliceArr(kt), cv.ref)), vc.props, pos)
					}
				}
			}
			key := vc.kvKey(st, args[1])
			err := vc.maybeExtError(st, "r_Delete_err")
			ok := Eq(ifaceTag(err), IntLit(0))
			has := vc.kvHas(st)
			if bt := vc.eng.balanceType(); bt != nil {
				s := vc.eng.st.SortOf(bt)
				_, h := vc.kvVal(st, s)
				sums := vc.kvSums(st)
				ks := App(sortInt, "keyspace", key)
				gone := And(ok, vc.isLedgerKey(key), vc.kvLive(st, key))
				vc.setHeap(st, "KVsum", Ite(gone, Store(sums, ks, Bin(sortInt, "-", Select(sums, ks, sortInt), vc.balanceCredit(Select(h, key, s), s))), sums))
			}
			vc.setHeap(st, "KVhas", Ite(ok, Store(has, key, tFalse), has))
			return err
		},
		"(*" + badgerLib + ".DB).Close": func(vc *VC, st *State, c *ssa.CallCommon, args []Value, pos string) Value {
			return vc.maybeExtError(st, "r_Close_err")
		},
	}
	for k, v := range kvHandlers {
		kvModels[k] = v
	}
}

var kvModels = map[string]handler{}

// kvHeapNames: the heaps that make up the database state on this path.
func kvHeapNames(st *State) []string {
	var out []string
	for n := range st.heaps {
		if strings.HasPrefix(n, "KV") {
			out = append(out, n)
		}
	}
	return out
}

// kvTransaction inlines the function passed to DB.Update / DB.View and, when it returns, commits or
// rolls back the database state it produced.
func (vc *VC) kvTransaction(st *State, f *Frame, instr ssa.Value, c *ssa.CallCommon, args []Value, update bool, deferred bool) []*State {
	fcl, ok := args[1].(*Closure)
	if !ok || fcl.Fn.Blocks == nil {
		refuse("%s with a function value that is not a literal", c.Value.Name())
	}
	vc.used["model:(*badger.DB).Update/View (atomic commit, rollback on error)"] = true
	// make sure the database heaps exist before the snapshot, so that a rollback restores all of them
	vc.kvHas(st)
	vc.kvExp(st)
	snap := map[string]*Term{}
	for _, n := range kvHeapNames(st) {
		snap[n] = st.heaps[n]
	}
	txn := args[0] // the transaction handle is the database itself in the model
	_ = txn
	txnArg := vc.fresh("txn", sortInt)
	st.assume(Not(Eq(txnArg, IntLit(0))))
	forks := vc.inline(st, f, instr, fcl.Fn, fcl, []Value{txnArg}, vc.eng.contractOf(fcl.Fn), deferred)
	nf := st.top()
	nf.onReturn = func(vc *VC, st *State, res []Value) []Value {
		ferr := vc.term(st, res[0], "txnerr")
		out := ferr
		commit := tFalse
		if update {
			cerr := vc.maybeExtError(st, "r_commit_err")
			failed := Not(Eq(ifaceTag(ferr), IntLit(0)))
			out = Ite(failed, ferr, cerr)
			commit = And(Not(failed), Eq(ifaceTag(cerr), IntLit(0)))
		}
		for _, n := range kvHeapNames(st) {
			before, had := snap[n]
			if !had {
				// a heap first touched inside the transaction: its state before is its initial (arbitrary) state
				before = vc.initialHeap(n, st.heaps[n].Sort)
			}
			if update {
				st.heaps[n] = Ite(commit, st.heaps[n], before)
			} else {
				st.heaps[n] = before
			}
		}
		st.txnCount++
		return []Value{out}
	}
	return forks
}

// initialHeap: the symbol standing for the heap's contents at function entry.
func (vc *VC) initialHeap(name string, s *Sort) *Term {
	n := name + "_0"
	vc.declare(n, s)
	return T(s, n)
}

// balanceType: the Go type store.Balance (nil when the package is not loaded).
func (e *Engine) balanceType() types.Type {
	for _, p := range e.prog.AllPackages() {
		if p.Pkg.Path() == vipnodeMod+"/pool/store" {
			if o := p.Pkg.Scope().Lookup("Balance"); o != nil {
				return o.Type()
			}
		}
	}
	return nil
}
