package main

import (
	"fmt"
	"go/types"
	"strings"
)

type SortKind int

const (
	KInt SortKind = iota
	KBool
	KStr
	KStruct // SMT datatype generated from a Go struct
	KIface  // (itag, ival)
	KSlice  // (arr ref, off, len, cap)
	KBig    // math/big.Int: (bval, bbuf)
	KArray  // (Array Int Elem) - Go array values, ghost arrays
	KTuple
	KFn // abstract map given as a function (spec level only)
)

type FieldInfo struct {
	Name string // Go field name
	Sel  string // SMT selector name
	Sort *Sort
	Type types.Type
}

type Sort struct {
	Name   string // SMT sort expression
	Kind   SortKind
	Fields []*FieldInfo // KStruct
	Ctor   string
	Key    *Sort // KArray
	Elem   *Sort // KArray
	Go     types.Type
}

var (
	sortInt   = &Sort{Name: "Int", Kind: KInt}
	sortBool  = &Sort{Name: "Bool", Kind: KBool}
	sortStr   = &Sort{Name: "Str", Kind: KStr}
	sortIface = &Sort{Name: "Iface", Kind: KIface, Ctor: "mk_iface"}
	sortSlice = &Sort{Name: "Slice", Kind: KSlice, Ctor: "mk_slice"}
	sortBig   = &Sort{Name: "BigInt", Kind: KBig, Ctor: "mk_big"}
)

// SortTable owns the datatype declarations generated so far (in dependency order).
type SortTable struct {
	byKey    map[string]*Sort
	byUnder  map[*types.Struct]*Sort
	decls    []string // datatype declarations in registration (dependency) order
	arrays   map[string]*Sort
	sizes    types.Sizes
	zeroArrs map[string]bool
}

func NewSortTable() *SortTable {
	st := &SortTable{byKey: map[string]*Sort{}, arrays: map[string]*Sort{}, zeroArrs: map[string]bool{}}
	return st
}

func smtName(s string) string {
	var b strings.Builder
	for _, r := range s {
		switch {
		case r >= 'a' && r <= 'z', r >= 'A' && r <= 'Z', r >= '0' && r <= '9', r == '_':
			b.WriteRune(r)
		case r == '.' || r == '/':
			b.WriteByte('_')
		case r == '*':
			b.WriteString("P")
		case r == '[':
			b.WriteString("L")
		case r == ']':
			b.WriteString("R")
		default:
			b.WriteByte('_')
		}
	}
	return b.String()
}

func shortTypeName(t types.Type) string {
	s := types.TypeString(t, func(p *types.Package) string {
		path := p.Path()
		path = strings.TrimPrefix(path, "github.com/vipnode/vipnode/v2/")
		path = strings.TrimPrefix(path, "github.com/vipnode/vipnode/v2")
		if path == "" {
			path = "main"
		}
		return path
	})
	return s
}

func (st *SortTable) ArrayOf(key, elem *Sort) *Sort {
	name := "(Array " + key.Name + " " + elem.Name + ")"
	if s, ok := st.arrays[name]; ok {
		return s
	}
	s := &Sort{Name: name, Kind: KArray, Key: key, Elem: elem}
	st.arrays[name] = s
	return s
}

func isNamed(t types.Type, pkg, name string) bool {
	n, ok := t.(*types.Named)
	if !ok {
		return false
	}
	o := n.Obj()
	return o.Name() == name && o.Pkg() != nil && o.Pkg().Path() == pkg
}

// SortOf maps a Go type to its SMT sort.
func (st *SortTable) SortOf(t types.Type) *Sort {
	t = types.Unalias(t)
	// special named types first
	switch {
	case isNamed(t, "time", "Time"):
		return sortInt
	case isNamed(t, "math/big", "Int"):
		return sortBig
	case isNamed(t, "sync", "Mutex"), isNamed(t, "sync", "RWMutex"), isNamed(t, "sync", "Once"):
		return sortBool
	}
	switch u := t.Underlying().(type) {
	case *types.Basic:
		switch {
		case u.Info()&types.IsBoolean != 0:
			return sortBool
		case u.Info()&types.IsString != 0:
			return sortStr
		case u.Kind() == types.UnsafePointer:
			return sortInt
		case u.Kind() == types.UntypedNil:
			return sortInt
		default:
			return sortInt // integers, floats (opaque), complex (opaque)
		}
	case *types.Pointer, *types.Map, *types.Chan, *types.Signature:
		return sortInt
	case *types.Interface:
		return sortIface
	case *types.Slice:
		return sortSlice
	case *types.Array:
		return st.ArrayOf(sortInt, st.SortOf(u.Elem()))
	case *types.Struct:
		return st.structSort(t, u)
	case *types.Tuple:
		return &Sort{Name: "<tuple>", Kind: KTuple, Go: t}
	}
	panic(fmt.Sprintf("SortOf: unsupported type %s", t))
}

func (st *SortTable) structSort(t types.Type, u *types.Struct) *Sort {
	key := shortTypeName(t)
	if s, ok := st.byKey[key]; ok {
		return s
	}
	// A type defined from another struct type (type NodeURI url.URL) shares the very same *types.Struct: one sort,
	// hence one heap, for both, so that a pointer conversion (*url.URL)(u) reads the fields u points to.
	if st.byUnder == nil {
		st.byUnder = map[*types.Struct]*Sort{}
	}
	if s, ok := st.byUnder[u]; ok {
		st.byKey[key] = s
		return s
	}
	name := "T_" + smtName(key)
	if len(name) > 60 {
		name = fmt.Sprintf("%s_%d", name[:50], len(st.byKey))
	}
	s := &Sort{Name: name, Kind: KStruct, Ctor: "mk_" + name, Go: t}
	st.byUnder[u] = s
	st.byKey[key] = s // (recursive struct types through slices/pointers are Int/Slice sorted: no cycle)
	for i := 0; i < u.NumFields(); i++ {
		f := u.Field(i)
		fs := st.SortOf(f.Type())
		fname := f.Name()
		if fname == "_" {
			fname = fmt.Sprintf("blank%d", i)
		}
		s.Fields = append(s.Fields, &FieldInfo{Name: f.Name(), Sel: name + "__" + smtName(fname), Sort: fs, Type: f.Type()})
	}
	var b strings.Builder
	if len(s.Fields) == 0 {
		fmt.Fprintf(&b, "(declare-datatypes ((%s 0)) (((%s))))", name, s.Ctor)
	} else {
		fmt.Fprintf(&b, "(declare-datatypes ((%s 0)) (((%s", name, s.Ctor)
		for _, f := range s.Fields {
			fmt.Fprintf(&b, " (%s %s)", f.Sel, f.Sort.Name)
		}
		b.WriteString("))))")
	}
	st.decls = append(st.decls, b.String())
	return s
}

// GhostStruct registers a datatype that does not come from Go (ghost records).
func (st *SortTable) GhostStruct(name string, fields []*FieldInfo) *Sort {
	key := "ghost:" + name
	if s, ok := st.byKey[key]; ok {
		return s
	}
	s := &Sort{Name: name, Kind: KStruct, Ctor: "mk_" + name, Fields: fields}
	st.byKey[key] = s
	var b strings.Builder
	fmt.Fprintf(&b, "(declare-datatypes ((%s 0)) (((%s", name, s.Ctor)
	for _, f := range s.Fields {
		f.Sel = name + "__" + f.Name
		fmt.Fprintf(&b, " (%s %s)", f.Sel, f.Sort.Name)
	}
	b.WriteString("))))")
	st.decls = append(st.decls, b.String())
	return s
}

const preambleFixed = `(declare-sort Str 0)
(declare-datatypes ((Iface 0)) (((mk_iface (itag Int) (ival Int)))))
(declare-datatypes ((Slice 0)) (((mk_slice (sarr Int) (soff Int) (slen Int) (scap Int)))))
(declare-datatypes ((BigInt 0)) (((mk_big (bval Int) (bbuf Int)))))
(declare-fun strlen (Str) Int)
(declare-fun strcat (Str Str) Str)
(declare-fun strprefix (Str Str) Bool)
(declare-fun strsuffix (Str Str) Bool)
(declare-fun strat (Str Int) Int)
(declare-fun strsub (Str Int Int) Str)
(declare-fun strlt (Str Str) Bool)
(declare-fun strlower (Str) Str)
(declare-fun go.shl (Int Int) Int)
(declare-fun go.shr (Int Int) Int)
(declare-fun go.and (Int Int) Int)
(declare-fun go.or (Int Int) Int)
(declare-fun go.xor (Int Int) Int)
(declare-fun go.andnot (Int Int) Int)
(define-fun go.div ((a Int) (b Int)) Int (ite (>= a 0) (ite (> b 0) (div a b) (- (div a (- b)))) (ite (> b 0) (- (div (- a) b)) (div (- a) (- b)))))
(define-fun go.rem ((a Int) (b Int)) Int (- a (* b (go.div a b))))
(declare-fun str2int (Str) Int)
(declare-fun int2str (Int) Str)
(declare-fun bytes2str ((Array Int Int) Int Int) Str)
(declare-fun str2arr (Str) (Array Int Int))
(declare-const str_empty Str)
(assert (= (strlen str_empty) 0))
(assert (forall ((s Str)) (! (>= (strlen s) 0) :pattern ((strlen s)))))
(assert (forall ((s Str)) (! (=> (= (strlen s) 0) (= s str_empty)) :pattern ((strlen s)))))
(assert (forall ((s Str)) (! (= (bytes2str (str2arr s) 0 (strlen s)) s) :pattern ((str2arr s)))))
(assert (forall ((s Str)) (! (= (int2str (str2int s)) s) :pattern ((str2int s)))))
`

func (st *SortTable) Preamble() string {
	return preambleFixed + strings.Join(st.decls, "\n") + "\n"
}

// Zero returns the zero value term of a sort.
func (st *SortTable) Zero(s *Sort) *Term {
	switch s.Kind {
	case KInt:
		return IntLit(0)
	case KBool:
		return tFalse
	case KStr:
		return T(sortStr, "str_empty")
	case KIface:
		return T(sortIface, "(mk_iface 0 0)")
	case KSlice:
		return T(sortSlice, "(mk_slice 0 0 0 0)")
	case KBig:
		return T(sortBig, "(mk_big 0 0)")
	case KArray:
		z := st.Zero(s.Elem)
		if !strings.Contains(z.S, "str_empty") && !strings.Contains(z.S, "zarr_") {
			return T(s, "((as const "+s.Name+") "+z.S+")")
		}
		// cvc5 only accepts values under (as const ...): use a named all-zero array instead
		name := "zarr_" + smtName(s.Name)
		if !st.zeroArrs[name] {
			st.zeroArrs[name] = true
			st.decls = append(st.decls, fmt.Sprintf("(declare-const %s %s)\n(assert (forall ((i %s)) (! (= (select %s i) %s) :pattern ((select %s i)))))", name, s.Name, s.Key.Name, name, z.S, name))
		}
		return T(s, name)
	case KStruct:
		if len(s.Fields) == 0 {
			return T(s, s.Ctor)
		}
		var b strings.Builder
		b.WriteString("(" + s.Ctor)
		for _, f := range s.Fields {
			b.WriteString(" " + st.Zero(f.Sort).S)
		}
		b.WriteString(")")
		return T(s, b.String())
	}
	panic("Zero: " + s.Name)
}

// FieldGet selects field i of a struct-sorted term.
func FieldGet(t *Term, i int) *Term {
	f := t.Sort.Fields[i]
	// simplify (sel (ctor a b c)) syntactically when possible
	if args, ok := ctorArgs(t.S, t.Sort.Ctor); ok && len(args) == len(t.Sort.Fields) {
		return T(f.Sort, args[i])
	}
	return T(f.Sort, "("+f.Sel+" "+t.S+")")
}

// FieldSet returns t with field i replaced by v.
func FieldSet(t *Term, i int, v *Term) *Term {
	var b strings.Builder
	b.WriteString("(" + t.Sort.Ctor)
	for j := range t.Sort.Fields {
		b.WriteString(" ")
		if j == i {
			b.WriteString(v.S)
		} else {
			b.WriteString(FieldGet(t, j).S)
		}
	}
	b.WriteString(")")
	return T(t.Sort, b.String())
}

// ctorArgs splits "(ctor a1 a2 ...)" into its top-level arguments.
func ctorArgs(s, ctor string) ([]string, bool) {
	prefix := "(" + ctor + " "
	if !strings.HasPrefix(s, prefix) || !strings.HasSuffix(s, ")") {
		return nil, false
	}
	body := s[len(prefix) : len(s)-1]
	var args []string
	depth := 0
	start := 0
	for i := 0; i < len(body); i++ {
		switch body[i] {
		case '(':
			depth++
		case ')':
			depth--
			if depth < 0 {
				return nil, false
			}
		case ' ':
			if depth == 0 {
				if i > start {
					args = append(args, body[start:i])
				}
				start = i + 1
			}
		}
	}
	if depth != 0 {
		return nil, false
	}
	if start < len(body) {
		args = append(args, body[start:])
	}
	return args, true
}

// fixed-sort helpers
func ifaceTag(t *Term) *Term {
	if a, ok := ctorArgs(t.S, "mk_iface"); ok && len(a) == 2 {
		return T(sortInt, a[0])
	}
	return T(sortInt, "(itag "+t.S+")")
}
func ifaceVal(t *Term) *Term {
	if a, ok := ctorArgs(t.S, "mk_iface"); ok && len(a) == 2 {
		return T(sortInt, a[1])
	}
	return T(sortInt, "(ival "+t.S+")")
}
func mkIface(tag, val *Term) *Term { return T(sortIface, "(mk_iface "+tag.S+" "+val.S+")") }

func sliceArr(t *Term) *Term { return sliceSel(t, 0, "sarr") }
func sliceOff(t *Term) *Term { return sliceSel(t, 1, "soff") }
func sliceLen(t *Term) *Term { return sliceSel(t, 2, "slen") }
func sliceCap(t *Term) *Term { return sliceSel(t, 3, "scap") }
func sliceSel(t *Term, i int, sel string) *Term {
	if a, ok := ctorArgs(t.S, "mk_slice"); ok && len(a) == 4 {
		return T(sortInt, a[i])
	}
	return T(sortInt, "("+sel+" "+t.S+")")
}
func mkSlice(arr, off, ln, cp *Term) *Term {
	return T(sortSlice, "(mk_slice "+arr.S+" "+off.S+" "+ln.S+" "+cp.S+")")
}

func bigVal(t *Term) *Term {
	if a, ok := ctorArgs(t.S, "mk_big"); ok && len(a) == 2 {
		return T(sortInt, a[0])
	}
	return T(sortInt, "(bval "+t.S+")")
}
func bigBuf(t *Term) *Term {
	if a, ok := ctorArgs(t.S, "mk_big"); ok && len(a) == 2 {
		return T(sortInt, a[1])
	}
	return T(sortInt, "(bbuf "+t.S+")")
}
func mkBig(v, buf *Term) *Term { return T(sortBig, "(mk_big "+v.S+" "+buf.S+")") }
