package main

import (
	"fmt"
	"go/constant"
	"go/types"
	"os"
	"strings"

	"golang.org/x/tools/go/ssa"
)

// SV is a spec-level value: an SMT term with (when it has one) its Go type.
type SV struct {
	V *Term
	T types.Type // nil for ghost values
}

// abstract (ghost) maps given as a function of the index instead of an array term carry the
// function in Term.Fn (sort kind KFn); see abstractField.
func (v SV) at(idx *Term) *Term {
	if v.V.Fn != nil {
		return v.V.Fn(idx)
	}
	return Select(v.V, idx, v.V.Sort.Elem)
}

func (v SV) isMapLike() bool { return v.V != nil && (v.V.Fn != nil || v.V.Sort.Kind == KArray) }

func (v SV) keySort() *Sort { return v.V.Sort.Key }

func fnTerm(key, elem *Sort, fn func(idx *Term) *Term) *Term {
	return &Term{S: "<abstract-map>", Sort: &Sort{Name: "<abstract-map>", Kind: KFn, Key: key, Elem: elem}, Fn: fn}
}

// ghostMapT is the "Go type" of a ghost map whose key/value types are known: it lets field
// selection work on the elements of ghost maps such as node: map[NodeID]Node.
type ghostMapT struct {
	key, val types.Type
}

func (g *ghostMapT) Underlying() types.Type { return g }
func (g *ghostMapT) String() string         { return "ghostmap" }

// ghostTypeOf builds the type descriptor of a ghost declaration type ("map[K]V", "set[K]", or a plain type).
func (env *Env) ghostTypeOf(t string) types.Type {
	t = strings.TrimSpace(t)
	if strings.HasPrefix(t, "map[") {
		kt, _ := env.tryResolve(ghostKeyType(t))
		vt := env.ghostTypeOf(ghostValType(t))
		return &ghostMapT{kt, vt}
	}
	if strings.HasPrefix(t, "set[") {
		kt, _ := env.tryResolve(ghostKeyType(t))
		return &ghostMapT{kt, types.Typ[types.Bool]}
	}
	gt, _ := env.tryResolve(t)
	return gt
}

func (env *Env) tryResolve(t string) (ty types.Type, ok bool) {
	defer func() {
		if r := recover(); r != nil {
			if _, isSpec := r.(specErr); isSpec {
				ty, ok = nil, false
				return
			}
			panic(r)
		}
	}()
	ty, _ = env.resolveType(t)
	return ty, true
}

type specErr struct{ msg string }

func (e specErr) Error() string { return e.msg }

func specFail(format string, args ...interface{}) {
	panic(specErr{fmt.Sprintf(format, args...)})
}

// Env is the evaluation environment of a spec expression.
type Env struct {
	vc        *VC
	st        *State // current state
	old       *State // state old(...) refers to (nil: old not available)
	vars      map[string]SV
	pkg       *types.Package
	frame     *Frame // for loop invariants: locals of this frame are visible by source name
	loop      *loopInfo
	nq        *int
	this      *SV
	inOld     bool            // evaluating under old(...): parameters denote their entry values
	loopEntry *State          // loop invariants: the state in which the loop was entered (for entry(...))
	retFrame  *Frame          // postconditions on the body: the frame at the return statement (for final(x))
	bound     map[string]bool // names bound by quantifiers / pure-function parameters: never resolved as program variables
}

// bind sets a spec-level name (bound variable, "v", "sent", argN, recv) that must shadow program variables.
func (env *Env) bind(name string, v SV) {
	env.vars[name] = v
	if env.bound == nil {
		env.bound = map[string]bool{}
	}
	env.bound[name] = true
}

func (env *Env) with(name string, v SV) *Env {
	e := *env
	e.vars = make(map[string]SV, len(env.vars)+1)
	for k, x := range env.vars {
		e.vars[k] = x
	}
	e.vars[name] = v
	e.bound = make(map[string]bool, len(env.bound)+1)
	for k := range env.bound {
		e.bound[k] = true
	}
	e.bound[name] = true
	return &e
}

// inPkg switches the package used to resolve unqualified names (declaring package of a ghost/pure).
func (env *Env) inPkg(path string) *Env {
	if path == "" || (env.pkg != nil && env.pkg.Path() == path) {
		return env
	}
	for _, p := range env.vc.eng.prog.AllPackages() {
		if p.Pkg.Path() == path {
			e := *env
			e.pkg = p.Pkg
			return &e
		}
	}
	return env
}

func (env *Env) inState(st *State) *Env {
	e := *env
	e.st = st
	return &e
}

// EvalBool evaluates a clause to a Bool term; spec errors are returned, not panicked.
func (env *Env) EvalBool(e Expr) (t *Term, err error) {
	defer func() {
		if r := recover(); r != nil {
			if se, ok := r.(specErr); ok {
				err = se
				return
			}
			panic(r)
		}
	}()
	v := env.eval(e)
	if v.V.Sort.Kind != KBool {
		return nil, specErr{"clause is not boolean"}
	}
	return v.V, nil
}

func (env *Env) EvalAny(e Expr) (v SV, err error) {
	defer func() {
		if r := recover(); r != nil {
			if se, ok := r.(specErr); ok {
				err = se
				return
			}
			panic(r)
		}
	}()
	return env.eval(e), nil
}

func (env *Env) sortOfType(t types.Type) *Sort { return env.vc.eng.st.SortOf(t) }

// resolveType parses a spec type expression.
func (env *Env) resolveType(s string) (types.Type, *Sort) {
	s = strings.TrimSpace(s)
	switch s {
	case "int":
		return types.Typ[types.Int], sortInt
	case "int64":
		return types.Typ[types.Int64], sortInt
	case "uint64":
		return types.Typ[types.Uint64], sortInt
	case "bool":
		return types.Typ[types.Bool], sortBool
	case "string":
		return types.Typ[types.String], sortStr
	case "ref":
		return nil, sortInt
	case "iface", "error":
		return types.Universe.Lookup("error").Type(), sortIface
	case "interface{}", "any":
		return types.NewInterfaceType(nil, nil), sortIface
	case "bigint":
		return nil, sortBig
	}
	if o := types.Universe.Lookup(s); o != nil {
		if tn, ok := o.(*types.TypeName); ok {
			return tn.Type(), env.sortOfType(tn.Type())
		}
	}
	if strings.HasPrefix(s, "*") {
		t, _ := env.resolveType(s[1:])
		if t == nil {
			return nil, sortInt
		}
		return types.NewPointer(t), sortInt
	}
	if strings.HasPrefix(s, "[]") {
		t, _ := env.resolveType(s[2:])
		if t == nil {
			return nil, sortSlice
		}
		return types.NewSlice(t), sortSlice
	}
	if strings.HasPrefix(s, "map[") {
		// ghost map: total array
		depth := 0
		for i := 3; i < len(s); i++ {
			if s[i] == '[' {
				depth++
			} else if s[i] == ']' {
				depth--
				if depth == 0 {
					_, ks := env.resolveType(s[4:i])
					_, vs := env.resolveType(s[i+1:])
					return nil, env.vc.eng.st.ArrayOf(ks, vs)
				}
			}
		}
		specFail("bad map type %q", s)
	}
	if strings.HasPrefix(s, "set[") && strings.HasSuffix(s, "]") {
		_, ks := env.resolveType(s[4 : len(s)-1])
		return nil, env.vc.eng.st.ArrayOf(ks, sortBool)
	}
	obj := env.lookupQualified(s)
	if tn, ok := obj.(*types.TypeName); ok {
		return tn.Type(), env.sortOfType(tn.Type())
	}
	specFail("unknown type %q", s)
	return nil, nil
}

// lookupQualified finds a package-level object "pkg.Name" or "Name".
func (env *Env) lookupQualified(s string) types.Object {
	if i := strings.LastIndex(s, "."); i >= 0 {
		pn, name := s[:i], s[i+1:]
		if p := env.findPkg(pn); p != nil {
			return p.Scope().Lookup(name)
		}
		return nil
	}
	if env.pkg != nil {
		if o := env.pkg.Scope().Lookup(s); o != nil {
			return o
		}
	}
	return nil
}

func (env *Env) findPkg(name string) *types.Package {
	if env.pkg != nil {
		if env.pkg.Name() == name {
			return env.pkg
		}
		for _, imp := range env.pkg.Imports() {
			if imp.Name() == name {
				return imp
			}
		}
	}
	// fall back: any loaded package with that name or path (prefer vipnode packages)
	var found *types.Package
	for _, p := range env.vc.eng.prog.AllPackages() {
		if p.Pkg.Name() == name || p.Pkg.Path() == name {
			if strings.Contains(p.Pkg.Path(), "vipnode/vipnode") {
				return p.Pkg
			}
			if found == nil {
				found = p.Pkg
			}
		}
	}
	return found
}

func (env *Env) eval(e Expr) SV {
	vc := env.vc
	switch x := e.(type) {
	case *EInt:
		return SV{BigLit(x.V), types.Typ[types.Int]}
	case *EBool:
		return SV{BoolLit(x.V), types.Typ[types.Bool]}
	case *EStr:
		return SV{vc.eng.strLit(x.V), types.Typ[types.String]}
	case *ENil:
		return SV{T(sortInt, "0"), types.Typ[types.UntypedNil]}
	case *EIdent:
		return env.evalIdent(x.Name)
	case *EUnary:
		v := env.eval(x.X)
		switch x.Op {
		case "!":
			env.wantBool(v, "!")
			return SV{Not(v.V), v.T}
		case "-":
			return SV{T(sortInt, "(- "+v.V.S+")"), v.T}
		case "*":
			pt, isPtr := derefType(v.T)
			if !isPtr {
				specFail("dereference of a non-pointer")
			}
			if arr, ok := types.Unalias(pt).Underlying().(*types.Array); ok {
				es := vc.eng.st.SortOf(arr.Elem())
				_, h := vc.arrHeap(env.st, es)
				return SV{Select(h, v.V, vc.eng.st.ArrayOf(sortInt, es)), pt}
			}
			ps := vc.eng.st.SortOf(pt)
			_, h := vc.objHeap(env.st, ps)
			return SV{Select(h, v.V, ps), pt}
		}
	case *EBinary:
		return env.evalBinary(x)
	case *ESel:
		return env.evalSel(x)
	case *EIndex:
		return env.evalIndex(x)
	case *ECall:
		return env.evalCall(x)
	case *EAssert:
		v := env.eval(x.X)
		t, s := env.resolveType(x.Type)
		if v.V.Sort.Kind != KIface {
			specFail("type assertion on non-interface")
		}
		return SV{vc.unbox(env.st, v.V, t, s), t}
	case *EQuant:
		body := env
		var binders []string
		for _, qv := range x.Vars {
			t, s := env.resolveType(qv.Type)
			*env.nq++
			name := fmt.Sprintf("q%d_%s", *env.nq, smtName(qv.Name))
			binders = append(binders, fmt.Sprintf("(%s %s)", name, s.Name))
			body = body.with(qv.Name, SV{T(s, name), t})
		}
		b := body.eval(x.Body)
		env.wantBool(b, "quantifier body")
		q := "exists"
		if x.Forall {
			q = "forall"
		}
		return SV{T(sortBool, fmt.Sprintf("(%s (%s) %s)", q, strings.Join(binders, " "), b.V.S)), types.Typ[types.Bool]}
	}
	specFail("cannot evaluate %T", e)
	return SV{}
}

func (env *Env) wantBool(v SV, what string) {
	if v.V.Sort.Kind != KBool {
		specFail("%s: operand is not boolean (%s)", what, v.V.Sort.Name)
	}
}

func (env *Env) evalIdent(name string) SV {
	vc := env.vc
	if env.bound[name] {
		return env.vars[name]
	}
	// inside a loop invariant a variable that the loop reassigns (even a parameter) is its header phi
	if env.frame != nil && env.loop != nil && !env.inOld {
		for _, ins := range env.loop.header.Instrs {
			if phi, ok := ins.(*ssa.Phi); ok && phi.Comment == name {
				if v, ok := env.frame.regs[phi]; ok {
					return SV{vc.term(env.st, v, "spec"), phi.Type()}
				}
			}
		}
	}
	// inside invariants / call-site requirements, a reassigned parameter denotes its current value
	if env.frame != nil && !env.inOld && !vc.eng.cellBacked(env.frame.fn, name) {
		if bv, ok := vc.boundValue(env.frame, env.loop, name); ok {
			if os.Getenv("VERIF_DEBUG_NAMES") == name {
				_, have := env.frame.regs[bv]
				fmt.Fprintf(os.Stderr, "name %s -> %s (%T) have=%v\n", name, bv, bv, have)
			}
			if rv, have := env.frame.regs[bv]; have {
				return SV{vc.term(env.st, rv, "spec"), bv.Type()}
			}
		}
	}
	if v, ok := env.vars[name]; ok {
		return v
	}
	if env.frame != nil {
		if v, ok := vc.localByName(env, name); ok {
			return v
		}
		// a function literal inlined into its enclosing function: the enclosing function's parameters and
		// variables are in (lexical) scope even when the literal does not capture them
		if parent := env.frame.fn.Parent(); parent != nil && env.st != nil {
			for i := len(env.st.frames) - 1; i >= 0; i-- {
				pf := env.st.frames[i]
				if pf.fn != parent {
					continue
				}
				for _, p := range parent.Params {
					if p.Name() == name {
						if rv, ok := pf.regs[p]; ok {
							return SV{vc.term(env.st, rv, name), p.Type()}
						}
					}
				}
				e2 := *env
				e2.frame = pf
				e2.loop = nil
				if v, ok := vc.localByName(&e2, name); ok {
					return v
				}
				break
			}
		}
		// a helper inlined into the function under contract: its invariants may name variables of the functions it is
		// being executed on behalf of (the callers on the stack, innermost first)
		if env.st != nil && len(env.st.frames) > 1 && env.frame != env.st.frames[0] {
			for i := len(env.st.frames) - 1; i >= 0; i-- {
				pf := env.st.frames[i]
				if pf == env.frame {
					continue
				}
				for _, p := range pf.fn.Params {
					if p.Name() == name {
						if rv, ok := pf.regs[p]; ok {
							return SV{vc.term(env.st, rv, name), p.Type()}
						}
					}
				}
				e2 := *env
				e2.frame = pf
				e2.loop = nil
				if v, ok := vc.localByName(&e2, name); ok {
					return v
				}
			}
		}
	}
	if name == "this" && env.this != nil {
		return *env.this
	}
	if g, ok := vc.eng.db.Ghosts[name]; ok && !g.Field {
		gt := env.inPkg(g.Pkg).ghostTypeOf(g.Type)
		return SV{vc.ghostVar(env.st, g), gt}
	}
	if obj := env.lookupQualified(name); obj != nil {
		return env.objValue(obj)
	}
	specFail("unknown identifier %q", name)
	return SV{}
}

func (env *Env) objValue(obj types.Object) SV {
	vc := env.vc
	switch o := obj.(type) {
	case *types.Const:
		return SV{vc.constTerm(o.Val(), o.Type()), o.Type()}
	case *types.Var:
		// package-level variable
		if pkg := vc.eng.prog.Package(o.Pkg()); pkg != nil {
			if g, ok := pkg.Members[o.Name()].(*ssa.Global); ok {
				v := vc.loadGlobal(env.st, g)
				return SV{vc.term(env.st, v, "spec"), o.Type()}
			}
		}
	}
	specFail("cannot use %s in a spec", obj)
	return SV{}
}

func (vc *VC) constTerm(val constant.Value, t types.Type) *Term {
	s := vc.eng.st.SortOf(t)
	switch s.Kind {
	case KBool:
		return BoolLit(constant.BoolVal(val))
	case KStr:
		return vc.eng.strLit(constant.StringVal(val))
	case KInt:
		if val == nil {
			return IntLit(0)
		}
		if val.Kind() == constant.Int {
			return BigLit(val.ExactString())
		}
		if val.Kind() == constant.Float {
			// opaque float constant
			name := "flt_" + smtName(val.ExactString())
			vc.declare(name, sortInt)
			return T(sortInt, name)
		}
	}
	return vc.eng.st.Zero(s)
}

func (env *Env) evalBinary(x *EBinary) SV {
	tb := types.Typ[types.Bool]
	switch x.Op {
	case "&&", "||", "==>", "<==>":
		l, r := env.eval(x.L), env.eval(x.R)
		env.wantBool(l, x.Op)
		env.wantBool(r, x.Op)
		switch x.Op {
		case "&&":
			return SV{And(l.V, r.V), tb}
		case "||":
			return SV{Or(l.V, r.V), tb}
		case "==>":
			return SV{Implies(l.V, r.V), tb}
		default:
			return SV{Eq(l.V, r.V), tb}
		}
	}
	l, r := env.eval(x.L), env.eval(x.R)
	switch x.Op {
	case "==", "!=":
		eq := env.equal(l, r)
		if x.Op == "!=" {
			eq = Not(eq)
		}
		return SV{eq, tb}
	case "<", "<=", ">", ">=":
		if l.V.Sort.Kind == KStr {
			specFail("string ordering is not supported in specs")
		}
		env.wantInt(l, r, x.Op)
		return SV{Bin(sortBool, x.Op, l.V, r.V), tb}
	case "+":
		if l.V.Sort.Kind == KStr {
			return SV{env.vc.strCat(env.st, l.V, r.V), l.T}
		}
		env.wantInt(l, r, x.Op)
		return SV{Bin(sortInt, "+", l.V, r.V), l.T}
	case "-", "*":
		env.wantInt(l, r, x.Op)
		return SV{Bin(sortInt, x.Op, l.V, r.V), l.T}
	case "/":
		env.wantInt(l, r, x.Op)
		return SV{Bin(sortInt, "go.div", l.V, r.V), l.T}
	case "%":
		env.wantInt(l, r, x.Op)
		return SV{Bin(sortInt, "go.rem", l.V, r.V), l.T}
	}
	specFail("unknown operator %s", x.Op)
	return SV{}
}

func (env *Env) wantInt(l, r SV, op string) {
	if l.V.Sort.Kind != KInt || r.V.Sort.Kind != KInt {
		specFail("operator %s needs integer operands (got %s, %s)", op, l.V.Sort.Name, r.V.Sort.Name)
	}
}

func isNilSV(v SV) bool {
	b, ok := v.T.(*types.Basic)
	return ok && b.Kind() == types.UntypedNil
}

func (env *Env) equal(l, r SV) *Term {
	if l.V == nil || r.V == nil {
		specFail("comparison of a value that has no term")
	}
	if isNilSV(l) {
		l, r = r, l
	}
	if isNilSV(r) {
		switch l.V.Sort.Kind {
		case KIface:
			return Eq(ifaceTag(l.V), IntLit(0))
		case KSlice:
			return Eq(sliceArr(l.V), IntLit(0))
		case KInt:
			return Eq(l.V, IntLit(0))
		}
		specFail("comparison of %s with nil", l.V.Sort.Name)
	}
	if l.V.Fn != nil || r.V.Fn != nil {
		if !l.isMapLike() || !r.isMapLike() {
			specFail("comparison of an abstract map with a non-map")
		}
		*env.nq++
		q := T(l.keySort(), fmt.Sprintf("qx%d", *env.nq))
		la, ra := l.at(q), r.at(q)
		inner := env.equal(SV{V: la}, SV{V: ra})
		return T(sortBool, fmt.Sprintf("(forall ((%s %s)) %s)", q.S, l.keySort().Name, inner.S))
	}
	if l.V.Sort != r.V.Sort && l.V.Sort.Name != r.V.Sort.Name {
		specFail("comparison of different sorts %s and %s", l.V.Sort.Name, r.V.Sort.Name)
	}
	return Eq(l.V, r.V)
}

func derefType(t types.Type) (types.Type, bool) {
	if t == nil {
		return nil, false
	}
	if p, ok := types.Unalias(t).Underlying().(*types.Pointer); ok {
		return p.Elem(), true
	}
	return t, false
}

// refOf gives the object reference a ghost field is keyed by.
func (env *Env) refOf(v SV) *Term {
	switch v.V.Sort.Kind {
	case KInt:
		return v.V
	case KIface:
		return ifaceVal(v.V)
	case KSlice:
		return sliceArr(v.V) // the backing array
	}
	specFail("ghost field on a value that is not a reference (%s)", v.V.Sort.Name)
	return nil
}

func (env *Env) evalSel(x *ESel) SV {
	vc := env.vc
	// qualified identifier pkg.Name ?
	if id, ok := x.X.(*EIdent); ok {
		if _, isVar := env.vars[id.Name]; !isVar {
			resolvable := false
			if env.frame != nil {
				_, resolvable = vc.localByName(env, id.Name)
			}
			if id.Name == "this" && env.this != nil {
				resolvable = true
			}
			if _, g := vc.eng.db.Ghosts[id.Name]; g {
				resolvable = true
			}
			if !resolvable && (env.pkg == nil || env.pkg.Scope().Lookup(id.Name) == nil) {
				if p := env.findPkg(id.Name); p != nil {
					if g, isGhost := vc.eng.db.Ghosts[x.Name]; isGhost && !g.Field {
						return env.evalIdent(x.Name) // a ghost variable, qualified with its declaring package for readability
					}
					obj := p.Scope().Lookup(x.Name)
					if obj == nil {
						specFail("%s.%s not found", id.Name, x.Name)
					}
					return env.objValue(obj)
				}
			}
		}
	}
	base := env.eval(x.X)
	// Go field?
	if base.T != nil {
		if sv, ok := env.goField(base, x.Name); ok {
			return sv
		}
	}
	// ghost field keyed by object
	if g, ok := vc.eng.db.Ghosts[x.Name]; ok && g.Field {
		if sv, ok := env.abstractField(base, g); ok {
			return sv
		}
		ref := env.refOf(base)
		_, gs := env.inPkg(g.Pkg).resolveType(g.Type)
		h := vc.ghostFieldHeap(env.st, g, gs)
		return SV{Select(h, ref, gs), env.inPkg(g.Pkg).ghostTypeOf(g.Type)}
	}
	specFail("no field or ghost field %q on %s", x.Name, typeStr(base.T))
	return SV{}
}

// abstractField resolves a ghost field on a value whose static type has an abstraction block.
func (env *Env) abstractField(base SV, g *GhostDecl) (SV, bool) {
	vc := env.vc
	if base.T == nil {
		return SV{}, false
	}
	t, _ := derefType(base.T)
	n, ok := types.Unalias(t).(*types.Named)
	if !ok || n.Obj().Pkg() == nil {
		return SV{}, false
	}
	defs, ok := vc.eng.db.Abstractions[n.Obj().Pkg().Path()+"."+n.Obj().Name()]
	if !ok {
		return SV{}, false
	}
	def, ok := defs[g.Name]
	if !ok {
		specFail("type %s has an abstraction block but no definition for ghost field %q", n.Obj().Name(), g.Name)
	}
	_, gs := env.inPkg(g.Pkg).resolveType(g.Type)
	inner := *env.inPkg(n.Obj().Pkg().Path())
	inner.vars = map[string]SV{"this": base}
	for k, v := range env.vars {
		if _, shadow := inner.vars[k]; !shadow {
			inner.vars[k] = v
		}
	}
	inner.this = &base
	if def.Param == "" {
		return inner.eval(def.Body), true
	}
	if gs.Kind != KArray {
		specFail("abstraction of %s is indexed but the ghost field is not a map", g.Name)
	}
	captured := inner
	var kt, kt2 types.Type
	if kts := ghostKeyType(g.Type); kts != "" {
		kt, _ = captured.inPkg(g.Pkg).resolveType(kts)
		if vts := ghostValType(g.Type); vts != "" {
			if k2 := ghostKeyType(vts); k2 != "" {
				kt2, _ = captured.inPkg(g.Pkg).resolveType(k2)
			}
		}
	}
	evalBody := func(i1, i2 *Term) *Term {
		e2 := captured
		e2.vars = make(map[string]SV, len(captured.vars)+2)
		for k, v := range captured.vars {
			e2.vars[k] = v
		}
		e2.bound = map[string]bool{def.Param: true}
		for k := range captured.bound {
			e2.bound[k] = true
		}
		e2.vars[def.Param] = SV{V: i1, T: kt}
		if i2 != nil {
			e2.vars[def.Param2] = SV{V: i2, T: kt2}
			e2.bound[def.Param2] = true
		}
		r := e2.eval(def.Body)
		if r.V == nil {
			specFail("abstraction of %s does not yield a term", g.Name)
		}
		return r.V
	}
	if def.Param2 != "" {
		if gs.Elem.Kind != KArray {
			specFail("abstraction of %s has two indices but the ghost field is not a nested map", g.Name)
		}
		return SV{V: fnTerm(gs.Key, gs.Elem, func(i1 *Term) *Term {
			return fnTerm(gs.Elem.Key, gs.Elem.Elem, func(i2 *Term) *Term { return evalBody(i1, i2) })
		}), T: env.inPkg(g.Pkg).ghostTypeOf(g.Type)}, true
	}
	return SV{V: fnTerm(gs.Key, gs.Elem, func(idx *Term) *Term { return evalBody(idx, nil) }), T: env.inPkg(g.Pkg).ghostTypeOf(g.Type)}, true
}

// ghostValType extracts V from "map[K]V".
func ghostValType(t string) string {
	t = strings.TrimSpace(t)
	if !strings.HasPrefix(t, "map[") {
		return ""
	}
	depth := 0
	for i := 3; i < len(t); i++ {
		if t[i] == '[' {
			depth++
		} else if t[i] == ']' {
			depth--
			if depth == 0 {
				return t[i+1:]
			}
		}
	}
	return ""
}

// ghostKeyType extracts K from "map[K]V" / "set[K]".
func ghostKeyType(t string) string {
	t = strings.TrimSpace(t)
	for _, pre := range []string{"map[", "set["} {
		if strings.HasPrefix(t, pre) {
			depth := 0
			for i := len(pre) - 1; i < len(t); i++ {
				if t[i] == '[' {
					depth++
				} else if t[i] == ']' {
					depth--
					if depth == 0 {
						return t[len(pre):i]
					}
				}
			}
		}
	}
	return ""
}

func typeStr(t types.Type) string {
	if t == nil {
		return "<ghost>"
	}
	return t.String()
}

// goField selects a (possibly promoted) field, dereferencing pointers through the current heap.
func (env *Env) goField(base SV, name string) (SV, bool) {
	vc := env.vc
	obj, index, _ := types.LookupFieldOrMethod(base.T, true, env.pkgOrNil(), name)
	f, ok := obj.(*types.Var)
	if !ok || !f.IsField() {
		// unexported field of another package: search manually
		var found bool
		index, f, found = findFieldAnyPkg(base.T, name)
		if !found {
			return SV{}, false
		}
	}
	cur := base
	for _, i := range index {
		t, isPtr := derefType(cur.T)
		if isPtr {
			s := vc.eng.st.SortOf(t)
			_, h := vc.objHeap(env.st, s)
			cur = SV{Select(h, cur.V, s), t}
		}
		st, ok := types.Unalias(cur.T).Underlying().(*types.Struct)
		if !ok {
			return SV{}, false
		}
		if cur.V.Sort.Kind != KStruct {
			specFail("field %s: value of type %s is modelled as %s and has no fields", name, cur.T, cur.V.Sort.Name)
		}
		cur = SV{FieldGet(cur.V, i), st.Field(i).Type()}
	}
	_ = f
	return cur, true
}

func (env *Env) pkgOrNil() *types.Package { return env.pkg }

func findFieldAnyPkg(t types.Type, name string) ([]int, *types.Var, bool) {
	t, _ = derefType(t)
	st, ok := types.Unalias(t).Underlying().(*types.Struct)
	if !ok {
		return nil, nil, false
	}
	for i := 0; i < st.NumFields(); i++ {
		if st.Field(i).Name() == name {
			return []int{i}, st.Field(i), true
		}
	}
	for i := 0; i < st.NumFields(); i++ {
		if st.Field(i).Embedded() {
			if idx, f, ok := findFieldAnyPkg(st.Field(i).Type(), name); ok {
				return append([]int{i}, idx...), f, true
			}
		}
	}
	return nil, nil, false
}

func (env *Env) evalIndex(x *EIndex) SV {
	vc := env.vc
	base := env.eval(x.X)
	idx := env.eval(x.I)
	if gm, ok := base.T.(*ghostMapT); ok {
		if base.V.Fn != nil {
			return SV{V: base.V.Fn(idx.V), T: gm.val}
		}
		return SV{V: Select(base.V, idx.V, base.V.Sort.Elem), T: gm.val}
	}
	if base.V.Fn != nil {
		return SV{V: base.V.Fn(idx.V)}
	}
	if base.T != nil {
		switch u := types.Unalias(base.T).Underlying().(type) {
		case *types.Map:
			ks, es := vc.eng.st.SortOf(u.Key()), vc.eng.st.SortOf(u.Elem())
			mh := vc.mapHeapsOf(env.st, u)
			present := And(Not(Eq(base.V, IntLit(0))), Select(Select(mh.p, base.V, vc.eng.st.ArrayOf(ks, sortBool)), idx.V, sortBool))
			val := Select(Select(mh.v, base.V, vc.eng.st.ArrayOf(ks, es)), idx.V, es)
			return SV{Ite(present, val, vc.eng.st.Zero(es)), u.Elem()}
		case *types.Slice:
			es := vc.eng.st.SortOf(u.Elem())
			_, h := vc.arrHeap(env.st, es)
			arr := Select(h, sliceArr(base.V), vc.eng.st.ArrayOf(sortInt, es))
			return SV{Select(arr, Bin(sortInt, "+", sliceOff(base.V), idx.V), es), u.Elem()}
		case *types.Array:
			return SV{Select(base.V, idx.V, base.V.Sort.Elem), u.Elem()}
		}
	}
	if base.V.Sort.Kind == KArray {
		return SV{V: Select(base.V, idx.V, base.V.Sort.Elem)}
	}
	specFail("cannot index %s", base.V.Sort.Name)
	return SV{}
}

func (env *Env) evalCall(x *ECall) SV {
	vc := env.vc
	tb := types.Typ[types.Bool]
	ti := types.Typ[types.Int]
	arg := func(i int) SV {
		if i >= len(x.Args) {
			specFail("%s: missing argument %d", x.Fun, i)
		}
		return env.eval(x.Args[i])
	}
	switch x.Fun {
	case "old":
		if env.old == nil {
			specFail("old(...) is not available here")
		}
		e := *env
		e.st = env.old
		e.inOld = true
		return e.eval(x.Args[0])
	case "len":
		v := arg(0)
		switch v.V.Sort.Kind {
		case KSlice:
			return SV{sliceLen(v.V), ti}
		case KStr:
			return SV{App(sortInt, "strlen", v.V), ti}
		case KInt:
			if m, ok := types.Unalias(v.T).Underlying().(*types.Map); ok {
				mh := vc.mapHeapsOf(env.st, m)
				return SV{Ite(Eq(v.V, IntLit(0)), IntLit(0), Select(mh.n, v.V, sortInt)), ti}
			}
		}
		specFail("len of %s", v.V.Sort.Name)
	case "cap":
		return SV{sliceCap(arg(0).V), ti}
	case "spawncount":
		// spawncount(site): goroutines started so far at the site-th go statement of the function
		n, ok := x.Args[0].(*EInt)
		if !ok {
			specFail("spawncount(<literal go-statement ordinal>)")
		}
		if t, ok := env.st.ghosts["spawn"+n.V+"_n"]; ok {
			return SV{t, ti}
		}
		return SV{IntLit(0), ti}
	case "spawnarg":
		// spawnarg(site, j): the array of the j-th argument of the goroutines started at that go statement
		n, ok1 := x.Args[0].(*EInt)
		j, ok2 := x.Args[1].(*EInt)
		if !ok1 || !ok2 {
			specFail("spawnarg(<site>, <argument index>)")
		}
		var et types.Type
		if g := findGo(vc.fn, n.V); g != nil {
			var idx int
			fmt.Sscanf(j.V, "%d", &idx)
			if slots := spawnSlotTypes(g); idx < len(slots) {
				et = slots[idx]
			}
		}
		if et == nil {
			specFail("spawnarg: the function has no go statement %s with an argument %s", n.V, j.V)
		}
		t, ok := env.st.ghosts["spawn"+n.V+"_a"+j.V]
		if !ok {
			// nothing started yet on this path: the log is empty
			t = vc.eng.st.Zero(vc.eng.st.ArrayOf(sortInt, vc.eng.st.SortOf(et)))
		}
		return SV{V: t, T: &ghostMapT{types.Typ[types.Int], et}}
	case "callcount":
		// callcount("f"): calls of the in-repo function f made so far through its contract
		n, ok := x.Args[0].(*EStr)
		if !ok {
			specFail("callcount(<function name literal>)")
		}
		if _, ok := loggedCallee(vc.fn, n.V); !ok {
			specFail("callcount: %s does not call a function named %s", vc.fn.Name(), n.V)
		}
		if t, ok := env.st.ghosts["call_"+n.V+"_n"]; ok {
			return SV{t, ti}
		}
		return SV{IntLit(0), ti}
	case "callarg":
		n, ok1 := x.Args[0].(*EStr)
		j, ok2 := x.Args[1].(*EInt)
		if !ok1 || !ok2 {
			specFail("callarg(<function name>, <argument index, receiver first>)")
		}
		pts, found := loggedCallee(vc.fn, n.V)
		var idx int
		fmt.Sscanf(j.V, "%d", &idx)
		if !found || idx >= len(pts) {
			specFail("callarg: %s does not call a function %s with an argument %s", vc.fn.Name(), n.V, j.V)
		}
		et := pts[idx]
		t, ok := env.st.ghosts["call_"+n.V+"_a"+j.V]
		if !ok {
			t = vc.eng.st.Zero(vc.eng.st.ArrayOf(sortInt, vc.eng.st.SortOf(et)))
		}
		return SV{V: t, T: &ghostMapT{types.Typ[types.Int], et}}
	case "kvkey":
		// kvkey("prefix", s): the database key fmt.Sprintf("prefix%s", s)
		pf, ok := x.Args[0].(*EStr)
		if !ok {
			specFail("kvkey(<prefix literal>, string)")
		}
		return SV{vc.keyFormat(env.st, pf.V, arg(1).V), types.Typ[types.String]}
	case "kvlive":
		return SV{vc.kvLive(env.st, arg(0).V), types.Typ[types.Bool]}
	case "kvhas":
		return SV{Select(vc.kvHas(env.st), arg(0).V, sortBool), types.Typ[types.Bool]}
	case "kvexp":
		return SV{Select(vc.kvExp(env.st), arg(0).V, sortInt), ti}
	case "kvget":
		// kvget("T", key): the value of Go type T stored under key
		tn, ok := x.Args[0].(*EStr)
		if !ok {
			specFail("kvget(<type literal>, key)")
		}
		gt, gs := env.resolveType(tn.V)
		if gt == nil {
			specFail("kvget: unknown type %s", tn.V)
		}
		_, h := vc.kvVal(env.st, gs)
		return SV{Select(h, arg(1).V, gs), gt}
	case "kvmhas", "kvmval", "kvmlen":
		// kvmhas("K", "V", key, k) / kvmval("K", "V", key, k) / kvmlen("K", "V", key): the map[K]V stored under key
		kn, ok1 := x.Args[0].(*EStr)
		vn, ok2 := x.Args[1].(*EStr)
		if !ok1 || !ok2 {
			specFail("%s(<key type literal>, <value type literal>, key, ...)", x.Fun)
		}
		kt, _ := env.resolveType(kn.V)
		vt, _ := env.resolveType(vn.V)
		if kt == nil || vt == nil {
			specFail("%s: unknown map type map[%s]%s", x.Fun, kn.V, vn.V)
		}
		km := vc.kvMap(env.st, types.NewMap(kt, vt))
		T := vc.eng.st
		switch x.Fun {
		case "kvmhas":
			return SV{Select(Select(km.h, arg(2).V, T.ArrayOf(km.k, sortBool)), arg(3).V, sortBool), types.Typ[types.Bool]}
		case "kvmval":
			return SV{Select(Select(km.v, arg(2).V, T.ArrayOf(km.k, km.e)), arg(3).V, km.e), vt}
		}
		return SV{Select(km.n, arg(2).V, sortInt), ti}
	case "itvisited":
		// itvisited(it, key): the database iterator it has moved past key since its last Seek
		T := vc.eng.st
		return SV{Select(Select(vc.kvitVis(env.st), arg(0).V, T.ArrayOf(sortStr, sortBool)), arg(1).V, sortBool), types.Typ[types.Bool]}
	case "itsum":
		return SV{Select(vc.kvitSum(env.st), arg(0).V, sortInt), ti}
	case "itcur":
		return SV{Select(vc.kvitCur(env.st), arg(0).V, sortStr), types.Typ[types.String]}
	case "kvunchanged", "kvallsame":
		// kvunchanged(key): everything the database holds under key is what it held at entry;
		// kvallsame(): the whole database is as it was at entry
		if env.old == nil {
			specFail("%s needs the entry state", x.Fun)
		}
		names := map[string]bool{}
		for _, n := range kvHeapNames(env.st) {
			names[n] = true
		}
		for _, n := range kvHeapNames(env.old) {
			names[n] = true
		}
		var cs []*Term
		for _, n := range sortedKeys(names) {
			if strings.HasPrefix(n, "KVIT") || n == "KVsum" {
				continue
			}
			cur, ok1 := env.st.heaps[n]
			was, ok2 := env.old.heaps[n]
			if !ok1 && !ok2 {
				continue
			}
			if !ok1 {
				cur = vc.heap(env.st, n, was.Sort)
			}
			if !ok2 {
				was = vc.initialHeap(n, cur.Sort)
			}
			if x.Fun == "kvallsame" {
				cs = append(cs, Eq(cur, was))
			} else {
				k := arg(0).V
				cs = append(cs, Eq(Select(cur, k, cur.Sort.Elem), Select(was, k, was.Sort.Elem)))
			}
		}
		return SV{And(cs...), types.Typ[types.Bool]}
	case "implements":
		// implements(v, "error"): the dynamic type of the interface value v implements the named interface type
		tn, ok := x.Args[1].(*EStr)
		if !ok {
			specFail("implements(value, <interface type literal>)")
		}
		it, _ := env.resolveType(tn.V)
		if it == nil {
			specFail("implements: unknown type %s", tn.V)
		}
		key := "impl_" + smtName(types.TypeString(it, nil))
		vc.declareFun(key, []*Sort{sortInt}, sortBool)
		a := arg(0).V
		return SV{And(Not(Eq(ifaceTag(a), IntLit(0))), App(sortBool, key, ifaceTag(a))), types.Typ[types.Bool]}
	case "entry":
		// entry(e): e evaluated over the heap and ghost state in which the loop was entered (loop-carried locals keep
		// their current values: use it for state reached through pointers, fields and ghosts)
		if env.loopEntry == nil {
			specFail("entry(...) is only available in loop invariants")
		}
		e2 := *env
		e2.st = env.loopEntry
		return e2.eval(x.Args[0])
	case "final":
		// final(x): the value the function's local variable x holds where it returns (its zero value on paths that
		// never assigned it). Only meaningful in postconditions, which are then checked on the body only.
		id, ok := x.Args[0].(*EIdent)
		if !ok || env.retFrame == nil {
			specFail("final(<local variable>) is only available in postconditions checked on the function's own body")
		}
		e2 := *env
		e2.frame = env.retFrame
		e2.loop = nil
		if v, ok := vc.localByName(&e2, id.Name); ok {
			return v
		}
		if lt := localType(env.retFrame.fn, id.Name); lt != nil {
			return SV{vc.eng.st.Zero(vc.eng.st.SortOf(lt)), lt}
		}
		specFail("final: %s has no local variable %s", env.retFrame.fn.Name(), id.Name)
	case "lastrecv":
		// lastrecv(): the channel the function most recently received a value from on this path (nil if none)
		if env.st.lastRecv != nil {
			return SV{env.st.lastRecv, nil}
		}
		return SV{IntLit(0), nil}
	case "kvsum":
		return SV{vc.kvSum(env.st), ti}
	case "txncount":
		return SV{IntLit(int64(env.st.txnCount)), ti}
	case "chancap":
		return SV{Select(vc.heap(env.st, "CHCAP", vc.eng.st.ArrayOf(sortInt, sortInt)), arg(0).V, sortInt), ti}
	case "off":
		// off(s): position of s[0] in the backing array elems(s); s[i] == elems(s)[off(s)+i]
		return SV{sliceOff(arg(0).V), ti}
	case "elems":
		v := arg(0)
		sl, ok := types.Unalias(v.T).Underlying().(*types.Slice)
		if v.T == nil || !ok {
			specFail("elems: argument is not a slice")
		}
		es := vc.eng.st.SortOf(sl.Elem())
		_, h := vc.arrHeap(env.st, es)
		return SV{Select(h, sliceArr(v.V), vc.eng.st.ArrayOf(sortInt, es)), types.NewArray(sl.Elem(), 0)}
	case "has":
		m, k := arg(0), arg(1)
		if mt, ok := types.Unalias(m.T).Underlying().(*types.Map); m.T != nil && ok {
			ks, _ := vc.eng.st.SortOf(mt.Key()), vc.eng.st.SortOf(mt.Elem())
			mh := vc.mapHeapsOf(env.st, mt)
			return SV{And(Not(Eq(m.V, IntLit(0))), Select(Select(mh.p, m.V, vc.eng.st.ArrayOf(ks, sortBool)), k.V, sortBool)), tb}
		}
		if m.V.Fn != nil {
			return SV{V: m.V.Fn(k.V), T: tb}
		}
		if m.V.Sort.Kind == KArray && m.V.Sort.Elem.Kind == KBool {
			return SV{V: Select(m.V, k.V, sortBool), T: tb}
		}
		specFail("has: first argument is not a map")
	case "bigval", "bigbuf":
		v := arg(0)
		b := v.V
		if b.Sort.Kind == KInt { // *big.Int
			_, h := vc.objHeap(env.st, sortBig)
			b = Select(h, b, sortBig)
		}
		if b.Sort.Kind != KBig {
			specFail("%s of non-big value", x.Fun)
		}
		if x.Fun == "bigval" {
			return SV{bigVal(b), ti}
		}
		return SV{bigBuf(b), ti}
	case "typeis":
		v := arg(0)
		tn := x.Args[1].(*EStr).V
		t, _ := env.resolveType(tn)
		if t == nil {
			specFail("typeis: unknown type %s", tn)
		}
		return SV{Eq(ifaceTag(v.V), IntLit(int64(vc.eng.tagOf(t)))), tb}
	case "ite":
		c, a, b := arg(0), arg(1), arg(2)
		env.wantBool(c, "ite")
		return SV{Ite(c.V, a.V, b.V), a.T}
	case "div":
		a, b := arg(0), arg(1)
		return SV{Bin(sortInt, "div", a.V, b.V), ti}
	case "mod":
		a, b := arg(0), arg(1)
		return SV{Bin(sortInt, "mod", a.V, b.V), ti}
	case "held":
		v := arg(0)
		if v.V.Sort.Kind != KBool {
			specFail("held: argument is not a mutex")
		}
		return SV{v.V, tb}
	case "fired":
		// fired(once): the sync.Once has run its function
		v := arg(0)
		if v.V.Sort.Kind != KBool {
			specFail("fired: argument is not a sync.Once")
		}
		return SV{v.V, tb}
	case "closed":
		// closed(ch): the channel has been closed
		v := arg(0)
		return SV{Select(vc.chanClosed(env.st), v.V, sortBool), tb}
	case "clock":
		return SV{env.st.clock, ti}
	case "allocated":
		// allocated(r): r was allocated before the state being evaluated
		r := arg(0).V
		if b, ok := vc.iptrBase[r.S]; ok {
			r = b // a pointer into an object is as old as that object
		}
		return SV{Bin(sortBool, "<=", r, env.st.alloc), tb}
	case "strbytes":
		// strbytes(s): the bytes of a string as an array (what []byte(s) contains)
		v := arg(0)
		if v.V.Sort.Kind != KStr {
			specFail("strbytes of a non-string")
		}
		return SV{V: App(vc.eng.st.ArrayOf(sortInt, sortInt), "str2arr", v.V)}
	case "lower":
		v := arg(0)
		return SV{App(sortStr, "strlower", v.V), types.Typ[types.String]}
	case "box":
		// box(x): the interface value holding x (for scalars and strings)
		v := arg(0)
		if v.T == nil {
			specFail("box: value has no Go type")
		}
		switch v.V.Sort.Kind {
		case KInt:
			return SV{mkIface(IntLit(int64(vc.eng.tagOf(v.T))), v.V), types.NewInterfaceType(nil, nil)}
		case KStr:
			return SV{mkIface(IntLit(int64(vc.eng.tagOf(v.T))), App(sortInt, "str2int", v.V)), types.NewInterfaceType(nil, nil)}
		case KBool:
			return SV{mkIface(IntLit(int64(vc.eng.tagOf(v.T))), Ite(v.V, IntLit(1), IntLit(0))), types.NewInterfaceType(nil, nil)}
		}
		specFail("box: only scalars and strings can be boxed in a spec")
	case "ctxget":
		// ctxget(ctx, key): the value stored in a context under key (context.WithValue / Value model)
		c, k := arg(0), arg(1)
		if k.T == nil {
			specFail("ctxget: key has no Go type")
		}
		vc.ctxDecl()
		var kb *Term
		switch k.V.Sort.Kind {
		case KInt:
			kb = mkIface(IntLit(int64(vc.eng.tagOf(k.T))), k.V)
		case KStr:
			kb = mkIface(IntLit(int64(vc.eng.tagOf(k.T))), App(sortInt, "str2int", k.V))
		case KIface:
			kb = k.V
		default:
			specFail("ctxget: unsupported key sort")
		}
		return SV{App(sortIface, "ctxval", c.V, kb), types.NewInterfaceType(nil, nil)}
	case "ival":
		return SV{ifaceVal(arg(0).V), ti}
	case "ref":
		return SV{env.refOf(arg(0)), ti}
	case "upd":
		a, k, v := arg(0), arg(1), arg(2)
		if a.V.Fn != nil {
			inner := a.V
			return SV{V: fnTerm(inner.Sort.Key, inner.Sort.Elem, func(idx *Term) *Term { return Ite(Eq(idx, k.V), v.V, inner.Fn(idx)) })}
		}
		if a.V.Sort.Kind != KArray {
			specFail("upd: first argument is not a ghost map")
		}
		return SV{V: Store(a.V, k.V, v.V), T: a.T}
	case "concat":
		return SV{vc.strCat(env.st, arg(0).V, arg(1).V), types.Typ[types.String]}
	case "sent":
		// sent(ch): how many values the function has sent on the channel ch so far on this path
		ch := arg(0).V
		var sum *Term = IntLit(0)
		for _, ev := range env.st.events {
			if ev.Kind == "send" && len(ev.Args) > 0 {
				if ct, ok := ev.Args[0].(*Term); ok {
					sum = Bin(sortInt, "+", sum, Ite(Eq(ct, ch), IntLit(1), IntLit(0)))
				}
			}
		}
		return SV{sum, ti}
	case "spawned":
		n := 0
		for _, ev := range env.st.events {
			if ev.Kind == "go" {
				n++
			}
		}
		return SV{IntLit(int64(n)), ti}
	}
	if sv, ok := env.evalMeasureCall(x); ok {
		return sv
	}
	if x.Fun == "uf" {
		// uf("pkg.Func" | "pkg.(*T).Method", resultIndex, args...): the uninterpreted function standing for an opaque Go function
		if len(x.Args) < 2 {
			specFail("uf(name, index, args...)")
		}
		nm, ok1 := x.Args[0].(*EStr)
		ix, ok2 := x.Args[1].(*EInt)
		if !ok1 || !ok2 {
			specFail("uf: name must be a string literal and index an integer literal")
		}
		key := nm.V
		if !strings.HasPrefix(key, vipnodeMod) {
			key = vipnodeMod + "/" + key
		}
		fn := vc.eng.FindFunc(key)
		if fn == nil {
			specFail("uf: unknown function %s", nm.V)
		}
		ct := vc.eng.contractOf(fn)
		if ct == nil || !ct.Opaque {
			specFail("uf: %s has no opaque contract", nm.V)
		}
		idx := 0
		fmt.Sscanf(ix.V, "%d", &idx)
		var ts []*Term
		var sorts []*Sort
		for _, a := range x.Args[2:] {
			v := env.eval(a)
			ts = append(ts, v.V)
			sorts = append(sorts, v.V.Sort)
		}
		rt := fn.Signature.Results().At(idx).Type()
		rs := vc.eng.st.SortOf(rt)
		name := ufName(fn, idx)
		vc.declareFun(name, sorts, rs)
		return SV{App(rs, name, ts...), rt}
	}
	// user-defined pure function (macro); a package qualifier is allowed and ignored
	pname := x.Fun
	if _, ok := vc.eng.db.Pures[pname]; !ok {
		if i := strings.LastIndex(pname, "."); i >= 0 {
			pname = pname[i+1:]
		}
	}
	if pd, ok := vc.eng.db.Pures[pname]; ok {
		if len(pd.Params) != len(x.Args) {
			specFail("%s: expected %d arguments", x.Fun, len(pd.Params))
		}
		inner := *env.inPkg(pd.Pkg)
		inner.vars = make(map[string]SV, len(env.vars)+len(pd.Params))
		for k, v := range env.vars {
			inner.vars[k] = v
		}
		inner.bound = make(map[string]bool, len(env.bound)+len(pd.Params))
		for k := range env.bound {
			inner.bound[k] = true
		}
		for i, p := range pd.Params {
			a := arg(i)
			if a.T == nil {
				if t, _ := inner.resolveType(p.Type); t != nil {
					a.T = t
				}
			}
			inner.vars[p.Name] = a
			inner.bound[p.Name] = true
		}
		return inner.eval(pd.Body)
	}
	// uninterpreted ghost function
	if g, ok := vc.eng.db.Ghosts[x.Fun]; ok && strings.HasPrefix(g.Type, "fun(") {
		return env.ghostFunCall(g, x)
	}
	// conversion T(x)
	if len(x.Args) == 1 {
		if obj := env.lookupQualified(x.Fun); obj != nil {
			if tn, ok := obj.(*types.TypeName); ok {
				v := arg(0)
				s := vc.eng.st.SortOf(tn.Type())
				if s != v.V.Sort && s.Name != v.V.Sort.Name {
					specFail("conversion %s(...) changes the sort (%s -> %s)", x.Fun, v.V.Sort.Name, s.Name)
				}
				return SV{v.V, tn.Type()}
			}
		}
		switch x.Fun {
		case "string", "int", "int64", "uint64":
			t, s := env.resolveType(x.Fun)
			v := arg(0)
			if x.Fun == "string" && v.V.Sort.Kind == KSlice {
				// string([]byte): the string made of the slice's current contents
				_, h := vc.arrHeap(env.st, sortInt)
				arr := Select(h, sliceArr(v.V), vc.eng.st.ArrayOf(sortInt, sortInt))
				return SV{App(sortStr, "bytes2str", arr, sliceOff(v.V), sliceLen(v.V)), t}
			}
			if s.Name != v.V.Sort.Name {
				specFail("conversion %s(...) changes the sort", x.Fun)
			}
			return SV{v.V, t}
		}
	}
	specFail("unknown spec function %q", x.Fun)
	return SV{}
}

// ghost function: type "fun(T1,T2)R"
func (env *Env) ghostFunCall(g *GhostDecl, x *ECall) SV {
	vc := env.vc
	body := strings.TrimPrefix(g.Type, "fun(")
	i := strings.LastIndex(body, ")")
	callerEnv := env
	env = env.inPkg(g.Pkg)
	var argSorts []*Sort
	if strings.TrimSpace(body[:i]) != "" {
		for _, a := range splitTop(body[:i], ',') {
			_, s := env.resolveType(a)
			argSorts = append(argSorts, s)
		}
	}
	rt, rs := env.resolveType(body[i+1:])
	if len(argSorts) != len(x.Args) {
		specFail("%s: expected %d arguments", g.Name, len(argSorts))
	}
	vc.declareFun("gf_"+g.Name, argSorts, rs)
	var args []*Term
	for k, a := range x.Args {
		v := callerEnv.eval(a)
		if v.V.Sort.Name != argSorts[k].Name {
			specFail("%s: argument %d has sort %s, want %s", g.Name, k, v.V.Sort.Name, argSorts[k].Name)
		}
		args = append(args, v.V)
	}
	return SV{App(rs, "gf_"+g.Name, args...), rt}
}

// ghostVar returns the current value of a ghost variable.
func (vc *VC) ghostVar(st *State, g *GhostDecl) *Term {
	if t, ok := st.ghosts[g.Name]; ok {
		return t
	}
	env := (&Env{vc: vc, st: st, nq: &vc.nq}).inPkg(g.Pkg)
	_, s := env.resolveType(g.Type)
	name := "G_" + g.Name + "_0"
	if st.epoch != "" {
		name = "G_" + g.Name + "_e" + st.epoch
	}
	vc.declare(name, s)
	t := T(s, name)
	st.ghosts[g.Name] = t
	return t
}

func (vc *VC) ghostFieldHeap(st *State, g *GhostDecl, gs *Sort) *Term {
	return vc.heap(st, "GF_"+g.Name, vc.eng.st.ArrayOf(sortInt, gs))
}

func (vc *VC) strCat(st *State, a, b *Term) *Term {
	if a.S == "str_empty" {
		return b
	}
	if b.S == "str_empty" {
		return a
	}
	c := App(sortStr, "strcat", a, b)
	// length, prefix and suffix of a concatenation: stated once for all arguments (the operands may be bound variables
	// of a specification)
	vc.axiom("(forall ((a Str) (b Str)) (! (and (= (strlen (strcat a b)) (+ (strlen a) (strlen b))) (strprefix a (strcat a b)) (= (strsub (strcat a b) (strlen a) (strlen (strcat a b))) b)) :pattern ((strcat a b))))")
	return c
}

// unbox extracts the dynamic value of static type t from an interface value.
func (vc *VC) unbox(st *State, iface *Term, t types.Type, s *Sort) *Term {
	val := ifaceVal(iface)
	switch s.Kind {
	case KInt:
		return val
	case KBool:
		return Not(Eq(val, IntLit(0)))
	case KStr:
		return App(sortStr, "int2str", val)
	default:
		_, h := vc.boxHeap(st, s)
		return Select(h, val, s)
	}
}

// box builds an interface value holding v of static type t.
func (vc *VC) box(st *State, v *Term, t types.Type) *Term {
	tag := IntLit(int64(vc.eng.tagOf(t)))
	switch v.Sort.Kind {
	case KInt:
		return mkIface(tag, v)
	case KBool:
		return mkIface(tag, Ite(v, IntLit(1), IntLit(0)))
	case KStr:
		return mkIface(tag, App(sortInt, "str2int", v))
	default:
		r := vc.newRef(st, "box")
		n, h := vc.boxHeap(st, v.Sort)
		vc.setHeap(st, n, Store(h, r, v))
		return mkIface(tag, r)
	}
}

func findGo(fn *ssa.Function, ord string) *ssa.Go {
	var want int
	fmt.Sscanf(ord, "%d", &want)
	n := 0
	for _, b := range fn.Blocks {
		for _, ins := range b.Instrs {
			if g, ok := ins.(*ssa.Go); ok {
				if n == want {
					return g
				}
				n++
			}
		}
	}
	return nil
}

// localType: the declared type of the source-level local variable called name (from the debug information).
func localType(fn *ssa.Function, name string) types.Type {
	for _, b := range fn.Blocks {
		for _, ins := range b.Instrs {
			if d, ok := ins.(*ssa.DebugRef); ok {
				if o := d.Object(); o != nil && o.Name() == name {
					return o.Type()
				}
			}
		}
	}
	return nil
}
