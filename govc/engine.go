package main

import (
	"fmt"
	"go/ast"
	"go/parser"
	"go/token"
	"go/types"
	"os"
	"path/filepath"
	"sort"
	"strconv"
	"strings"
	"sync"
	"time"

	"golang.org/x/tools/go/packages"
	"golang.org/x/tools/go/ssa"
)

type Engine struct {
	repoDir string
	modPath string
	prog    *ssa.Program
	pkgs    []*packages.Package
	st      *SortTable
	db      *SpecDB

	loops        map[*ssa.Function]map[*ssa.BasicBlock]*loopInfo
	dbgRefs      map[*ssa.Function]map[string][]*ssa.DebugRef
	globalIDs    map[*ssa.Global]int
	strLits      map[string]string
	strOrder     []string
	typeTags     map[string]int
	tagTypes     []types.Type
	measures     map[string][]*measure
	keyPrefixes  map[string]int
	specErrors   []string
	cellVars     map[string]bool
	kvTypes      map[string]string // database key format -> Go type its values are read and written with
	siteOrds     map[*ssa.Function]map[ssa.Instruction]string
	constGlobals map[*ssa.Global]*ssa.Const
	loadSecs     float64
	pruneDir     string
}

func (e *Engine) bigIntType() types.Type {
	for _, p := range e.prog.AllPackages() {
		if p.Pkg.Path() == "math/big" {
			if tn, ok := p.Pkg.Scope().Lookup("Int").(*types.TypeName); ok {
				return tn.Type()
			}
		}
	}
	return nil
}

func (e *Engine) specError(msg string) {
	for _, m := range e.specErrors {
		if m == msg {
			return
		}
	}
	e.specErrors = append(e.specErrors, msg)
}

const vipnodeMod = "github.com/vipnode/vipnode/v2"

func NewEngine(repoDir, assumedDir string, patterns []string) (*Engine, error) {
	t0 := time.Now()
	e := &Engine{repoDir: repoDir, modPath: vipnodeMod, st: NewSortTable(), kvTypes: map[string]string{}, cellVars: map[string]bool{},
		loops: map[*ssa.Function]map[*ssa.BasicBlock]*loopInfo{}, dbgRefs: map[*ssa.Function]map[string][]*ssa.DebugRef{},
		globalIDs: map[*ssa.Global]int{}, strLits: map[string]string{}, typeTags: map[string]int{}, measures: map[string][]*measure{}, keyPrefixes: map[string]int{}, siteOrds: map[*ssa.Function]map[ssa.Instruction]string{}, constGlobals: map[*ssa.Global]*ssa.Const{}}
	absRepo, _ := filepath.Abs(repoDir)
	cfg := &packages.Config{
		Mode:       packages.LoadAllSyntax,
		Dir:        repoDir,
		BuildFlags: []string{"-tags=verif"},
		Env:        append(os.Environ(), "GOFLAGS=-mod=mod", "GOPROXY=off", "GOSUMDB=off", "GOTOOLCHAIN=local"),
		ParseFile: func(fset *token.FileSet, filename string, src []byte) (*ast.File, error) {
			f, err := parser.ParseFile(fset, filename, src, parser.ParseComments|parser.SkipObjectResolution)
			if err != nil {
				return f, err
			}
			if !strings.HasPrefix(filename, absRepo+"/") {
				// dependencies: signatures only (bodies are governed by assumed contracts)
				for _, d := range f.Decls {
					if fd, ok := d.(*ast.FuncDecl); ok {
						fd.Body = nil
					}
				}
			}
			return f, nil
		},
	}
	pkgs, err := packages.Load(cfg, patterns...)
	if err != nil {
		return nil, err
	}
	var errs []string
	packages.Visit(pkgs, nil, func(p *packages.Package) {
		if strings.HasPrefix(p.PkgPath, vipnodeMod) {
			for _, pe := range p.Errors {
				errs = append(errs, pe.Error())
			}
		}
	})
	if len(errs) > 0 {
		return nil, fmt.Errorf("vipnode packages do not type-check:\n%s", strings.Join(errs, "\n"))
	}
	e.pkgs = pkgs
	prog := ssa.NewProgram(pkgs[0].Fset, ssa.GlobalDebug|ssa.InstantiateGenerics)
	var all []*packages.Package
	packages.Visit(pkgs, nil, func(p *packages.Package) { all = append(all, p) })
	created := map[*types.Package]bool{}
	for _, p := range all {
		if p.Types == nil || created[p.Types] {
			continue
		}
		created[p.Types] = true
		if strings.HasPrefix(p.PkgPath, vipnodeMod) {
			prog.CreatePackage(p.Types, p.Syntax, p.TypesInfo, true)
		} else {
			prog.CreatePackage(p.Types, nil, nil, true)
		}
	}
	for _, sp := range prog.AllPackages() {
		if strings.HasPrefix(sp.Pkg.Path(), vipnodeMod) {
			sp.Build()
		}
	}
	e.prog = prog
	db, err := LoadSpecs(repoDir, assumedDir, vipnodeMod)
	if err != nil {
		return nil, err
	}
	e.db = db
	e.loadSecs = time.Since(t0).Seconds()
	return e, nil
}

// FindFunc resolves "<pkgpath>.<RelString>" e.g. ".../pool/balance.(*payPerInterval).OnClient"
func (e *Engine) FindFunc(key string) *ssa.Function {
	for _, sp := range e.prog.AllPackages() {
		path := sp.Pkg.Path()
		if !strings.HasPrefix(key, path+".") {
			continue
		}
		rel := key[len(path)+1:]
		for _, m := range sp.Members {
			switch x := m.(type) {
			case *ssa.Function:
				if x.RelString(sp.Pkg) == rel {
					return x
				}
				for _, an := range x.AnonFuncs {
					if an.RelString(sp.Pkg) == rel {
						return an
					}
				}
			case *ssa.Type:
				for _, t := range []types.Type{x.Type(), types.NewPointer(x.Type())} {
					ms := e.prog.MethodSets.MethodSet(t)
					for i := 0; i < ms.Len(); i++ {
						fn := e.prog.MethodValue(ms.At(i))
						if fn != nil && fn.Pkg == sp && fn.RelString(sp.Pkg) == rel {
							return fn
						}
						if fn != nil {
							for _, an := range fn.AnonFuncs {
								if an.Pkg == sp && an.RelString(sp.Pkg) == rel {
									return an
								}
							}
						}
					}
				}
			}
		}
	}
	return nil
}

type Options struct {
	Tier        string
	Seed        int
	Timeout     int
	InlineDepth int
	MaxPaths    int
	WorkDir     string
	Safety      bool
	Key         string
}

// Verify symbolically executes fn against its contract and collects obligations.
func (e *Engine) Verify(fn *ssa.Function, ct *Contract, props []string, opt Options) (vc *VC) {
	vc = &VC{eng: e, fn: fn, contract: ct, props: props, declSet: map[string]bool{}, iterPid: map[string]int{}, iterSeekState: map[string]string{}, notes: map[string]bool{}, used: map[string]bool{},
		valueLabels: map[string]string{}, maxPaths: opt.MaxPaths, inlineDepth: opt.InlineDepth, lets: map[string]SV{}, key: opt.Key, thorough: opt.Tier == "thorough"}
	if ct != nil {
		vc.safety = ct.Safety
	}
	if opt.Safety {
		vc.safety = true
	}
	for _, g := range e.db.Guarded {
		if fn.Pkg != nil && g.Pkg == fn.Pkg.Pkg.Path() {
			vc.lockCheck = true
		}
	}
	defer func() {
		if r := recover(); r != nil {
			if rf, ok := r.(refusal); ok {
				vc.refused = rf.msg
				return
			}
			if se, ok := r.(specErr); ok {
				e.specError(fmt.Sprintf("%s: %s", fn, se.msg))
				vc.refused = "spec error: " + se.msg
				return
			}
			panic(r)
		}
	}()
	e.pruneDir = opt.WorkDir
	if fn.Blocks == nil {
		vc.refused = "function has no body"
		return vc
	}
	st := &State{heaps: map[string]*Term{}, ghosts: map[string]*Term{}, globals: map[*ssa.Global]Value{}}
	allocRefs.Range(func(k, _ interface{}) bool { allocRefs.Delete(k); return true }) // reference names are per function
	vc.declare("alloc_0", sortInt)
	st.alloc = T(sortInt, "alloc_0")
	st.assume(Bin(sortBool, ">=", st.alloc, IntLit(0)))
	vc.declare("clock_0", sortInt)
	st.clock = T(sortInt, "clock_0")
	st.assume(Bin(sortBool, ">=", st.clock, IntLit(0))) // wall-clock readings are nanoseconds since 1970: not negative
	f := &Frame{fn: fn, regs: map[ssa.Value]Value{}, cut: map[*ssa.BasicBlock]bool{}, iters: map[ssa.Value]*iterState{}, contract: ct}
	for i, p := range fn.Params {
		s := e.st.SortOf(p.Type())
		name := "p_" + smtName(p.Name())
		if vc.declSet[name] {
			name = fmt.Sprintf("p%d_%s", i, smtName(p.Name()))
		}
		vc.declare(name, s)
		v := T(s, name)
		vc.typeFacts(st, v, p.Type())
		if b, ok := p.Type().Underlying().(*types.Basic); ok && s.Kind == KInt {
			// the machine range of an integer parameter (arithmetic on it is still mathematical)
			if lo, hi, ok := intRange(b.Kind()); ok {
				st.assume(And(Bin(sortBool, ">=", v, T(sortInt, lo)), Bin(sortBool, "<=", v, T(sortInt, hi))))
			}
		}
		f.regs[p] = v
		switch s.Kind {
		case KInt, KBool, KStr, KSlice, KIface, KBig:
			vc.valueNames = append(vc.valueNames, name)
		case KStruct:
			vc.valueNames = append(vc.valueNames, name)
		}
		if i == 0 && fn.Signature.Recv() != nil {
			if _, isPtr := p.Type().Underlying().(*types.Pointer); isPtr {
				st.assume(Not(Eq(v, IntLit(0))))
				vc.note("method receivers are non-nil")
			}
		}
	}
	for i, fv := range fn.FreeVars {
		// closures verified on their own: captured variables are arbitrary cells
		s := e.st.SortOf(fv.Type())
		name := fmt.Sprintf("fv%d_%s", i, smtName(fv.Name()))
		vc.declare(name, s)
		v := T(s, name)
		vc.typeFacts(st, v, fv.Type())
		st.assume(Not(Eq(v, IntLit(0))))
		f.regs[fv] = v
	}
	st.frames = []*Frame{f}
	if ct != nil {
		env := vc.envFor(st, f)
		env.old = st
		if len(fn.FreeVars) > 0 {
			env.frame = f // captured variables are resolved through the frame
		}
		for _, l := range ct.Lets {
			v, err := env.EvalAny(l.E)
			if err != nil {
				e.specError(fmt.Sprintf("%s: let %s: %v", ct.Target, l.Name, err))
				continue
			}
			vc.lets[l.Name] = v
			env.vars[l.Name] = v
		}
		// lemmas are closed statements over the spec functions of this contract: they are proved
		// in the entry state before any precondition is assumed, so they hold for every call
		for _, cl := range ct.Lemmas {
			t, err := env.EvalBool(cl.E)
			if err != nil {
				vc.unprovable(fmt.Sprintf("lemma[%s]", cl.Label), vc.clauseProps(ct, cl), vc.posOf(fn.Pos()), err)
				continue
			}
			vc.oblige(st, fmt.Sprintf("lemma[%s]", cl.Label), t, vc.clauseProps(ct, cl), vc.posOf(fn.Pos()))
		}
		for _, cl := range ct.Requires {
			t, err := env.EvalBool(cl.E)
			if err != nil {
				e.specError(fmt.Sprintf("%s: requires: %v", ct.Target, err))
				continue
			}
			st.assume(t)
		}
		// preconditions of the implemented interface contracts may be relied upon
		for _, key := range ct.Implements {
			if ict := e.db.ByIface[key]; ict != nil {
				if ienv := vc.implEnv(st, f, ict, nil); ienv != nil {
					ienv.old = st
					for _, cl := range ict.Requires {
						if t, err := ienv.EvalBool(cl.E); err == nil {
							st.assume(t)
						} else {
							e.specError(fmt.Sprintf("%s implements %s: requires: %v", ct.Target, key, err))
						}
					}
				}
			}
		}
		for _, w := range ct.Witness {
			v, err := env.EvalAny(w.E)
			if err != nil {
				e.specError(fmt.Sprintf("%s: witness %s: %v", ct.Target, w.Name, err))
				continue
			}
			vc.valueNames = append(vc.valueNames, v.V.S)
			vc.valueLabels[strings.Join(strings.Fields(v.V.S), " ")] = w.Name
		}
	}
	tExplore := time.Now()
	defer func() {
		if os.Getenv("VERIF_TIMING") != "" {
			fmt.Fprintf(os.Stderr, "timing: explore %s: %.1fs, %d paths, %d prune calls (%d pruned), %d obligations\n", fn.Name(), time.Since(tExplore).Seconds(), vc.npaths, vc.nprune, vc.npruned, len(vc.obls))
		}
	}()
	vc.entry = st.snapshot()
	// vacuity: the precondition must be satisfiable
	vc.cover(st, "cover@entry", vc.posOf(fn.Pos()))
	vc.enterBlock(st, f, nil, fn.Blocks[0])
	vc.explore(st)
	return vc
}

// ---------------------------------------------------------------------------
// discharge

func Discharge(obls []*Obligation, opt Options) {
	tStart := time.Now()
	defer func() {
		if os.Getenv("VERIF_TIMING") != "" {
			fmt.Fprintf(os.Stderr, "timing: discharge %d obligations in %.1fs\n", len(obls), time.Since(tStart).Seconds())
		}
	}()
	var wg sync.WaitGroup
	ch := make(chan *Obligation)
	workers := 16
	if opt.Tier == "thorough" {
		workers = 8 // thorough runs all solvers per obligation
	}
	for w := 0; w < workers; w++ {
		wg.Add(1)
		go func() {
			defer wg.Done()
			for o := range ch {
				if o.MustFail {
					// vacuity cover: only "unsat" matters (it would mean a contradictory path); a short single run
					file := filepath.Join(opt.WorkDir, sanitize(o.fileBase())+".smt2")
					os.WriteFile(file, []byte(o.Script), 0o644)
					ans, out, secs := runSolver(solvers[0], file, 2, opt.Seed)
					o.Result = SolveResult{Answer: ans, Solver: "z3-new", Seconds: secs, Output: out}
					if ans == "error" {
						o.Result.Answer = "unknown"
					}
					continue
				}
				o.Result = solve(opt.WorkDir, o.fileBase(), o.Script, opt.Timeout, opt.Seed, opt.Tier == "thorough" && !o.MustFail)
				if !o.MustFail && (o.Result.Answer == "timeout" || o.Result.Answer == "unknown") {
					// no model: look for a candidate input with the quantified assumptions dropped.
					// The candidate may be spurious; only a replay on the real code can confirm it.
					if cand := candidateModel(opt.WorkDir, o, opt.Seed); cand != nil {
						o.Result.Model = cand
						o.Candidate = true
					}
				}
			}
		}()
	}
	// stable order
	sort.SliceStable(obls, func(i, j int) bool { return obls[i].Name < obls[j].Name })
	// several obligations may share name and path (two unlabelled clauses of one contract, one site reached
	// twice on a path): every query gets its own file
	for i, o := range obls {
		o.Seq = i
	}
	// phase 1: groups (all postconditions of one return path) as one conjunction
	groups := map[string][]*Obligation{}
	var gkeys []string
	for _, o := range obls {
		if o.Result.Answer == "" && o.Group != "" && !o.MustFail {
			if _, ok := groups[o.Group]; !ok {
				gkeys = append(gkeys, o.Group)
			}
			groups[o.Group] = append(groups[o.Group], o)
		}
	}
	if len(gkeys) > 0 {
		var gw sync.WaitGroup
		gch := make(chan string)
		for w := 0; w < workers; w++ {
			gw.Add(1)
			go func() {
				defer gw.Done()
				for k := range gch {
					members := groups[k]
					if len(members) < 2 {
						continue
					}
					var goals []string
					for _, m := range members {
						goals = append(goals, m.Goal)
					}
					script := members[0].Prefix + scriptGoal("(and "+strings.Join(goals, " ")+")", nil)
					r := solve(opt.WorkDir, "group_"+k, script, opt.Timeout, opt.Seed, opt.Tier == "thorough")
					if r.Answer == "unsat" {
						for _, m := range members {
							m.Result = r
							m.Result.Seconds = r.Seconds / float64(len(members))
						}
					}
				}
			}()
		}
		for _, k := range gkeys {
			gch <- k
		}
		close(gch)
		gw.Wait()
		if os.Getenv("VERIF_TIMING") != "" {
			n := 0
			for _, o := range obls {
				if o.Result.Answer == "" {
					n++
				}
			}
			fmt.Fprintf(os.Stderr, "timing: %d groups in %.1fs, %d obligations left\n", len(gkeys), time.Since(tStart).Seconds(), n)
		}
	}
	for _, o := range obls {
		if o.Result.Answer != "" {
			continue
		}
		ch <- o
	}
	close(ch)
	wg.Wait()
	if k, _ := strconv.Atoi(os.Getenv("VERIF_STABILITY")); k > 0 {
		stabilityReport(obls, opt, k)
	}
}

// stabilityReport re-runs every discharged query under k further solver seeds and lists those that are slow or
// undecided under some seed: the proofs that could turn into false alarms. Development aid (VERIF_STABILITY=k).
func stabilityReport(obls []*Obligation, opt Options, k int) {
	var jobs []*Obligation
	for _, o := range obls {
		if o.MustFail || o.Result.Answer != "unsat" || o.Result.Solver == "syntactic" || o.Script == "" {
			continue
		}
		jobs = append(jobs, o)
	}
	var mu sync.Mutex
	var lines []string
	var wg sync.WaitGroup
	ch := make(chan *Obligation)
	for w := 0; w < 12; w++ {
		wg.Add(1)
		go func() {
			defer wg.Done()
			for o := range ch {
				worst, und := 0.0, 0
				for s := 1; s <= k; s++ {
					t0 := time.Now()
					r := solve(opt.WorkDir, o.fileBase()+"_stab", o.Script, opt.Timeout, opt.Seed+s*13, false)
					if d := time.Since(t0).Seconds(); d > worst {
						worst = d
					}
					if r.Answer != "unsat" {
						und++
					}
				}
				if und > 0 || worst > 6 {
					mu.Lock()
					lines = append(lines, fmt.Sprintf("UNSTABLE %s path=%d: undecided under %d of %d seeds, slowest %.1fs", o.Name, o.Path, und, k, worst))
					mu.Unlock()
				}
			}
		}()
	}
	for _, j := range jobs {
		ch <- j
	}
	close(ch)
	wg.Wait()
	sort.Strings(lines)
	for _, l := range lines {
		fmt.Println(l)
	}
	fmt.Printf("stability: %d obligations re-run (whole solver portfolio) under %d seeds, %d unstable\n", len(jobs), k, len(lines))
}

// candidateModel re-solves an undecided obligation without its quantified assumptions.
func candidateModel(workdir string, o *Obligation, seed int) map[string]string {
	var b strings.Builder
	lines := strings.Split(o.Script, "\n")
	for i, ln := range lines {
		last := false
		// the goal is the last assert before (check-sat)
		for j := i + 1; j < len(lines); j++ {
			if strings.HasPrefix(lines[j], "(assert") {
				break
			}
			if strings.HasPrefix(lines[j], "(check-sat") {
				last = true
				break
			}
		}
		if strings.HasPrefix(ln, "(assert") && strings.Contains(ln, "(forall ") && !last {
			continue
		}
		b.WriteString(ln)
		b.WriteByte('\n')
	}
	file := filepath.Join(workdir, sanitize(o.fileBase())+".cand.smt2")
	os.WriteFile(file, []byte(b.String()), 0o644)
	ans, out, _ := runSolver(solvers[0], file, 5, seed)
	if ans != "sat" {
		return nil
	}
	return parseModel(out)
}

// intRange: the value range of a sized integer kind, as SMT numerals.
func intRange(k types.BasicKind) (lo, hi string, ok bool) {
	switch k {
	case types.Int, types.Int64:
		return "(- 9223372036854775808)", "9223372036854775807", true
	case types.Int32:
		return "(- 2147483648)", "2147483647", true
	case types.Int16:
		return "(- 32768)", "32767", true
	case types.Int8:
		return "(- 128)", "127", true
	case types.Uint, types.Uint64, types.Uintptr:
		return "0", "18446744073709551615", true
	case types.Uint32:
		return "0", "4294967295", true
	case types.Uint16:
		return "0", "65535", true
	case types.Uint8:
		return "0", "255", true
	}
	return "", "", false
}
