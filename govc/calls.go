package main

import (
	"fmt"
	"go/token"
	"go/types"
	"os"
	"regexp"
	"sort"
	"strconv"
	"strings"

	"golang.org/x/tools/go/ssa"
)

// chanClosed: which channels have been closed. Channels made after entry start out open.
func (vc *VC) chanClosed(st *State) *Term {
	srt := vc.eng.st.ArrayOf(sortInt, sortBool)
	first := !vc.declSet["CHclosed_0"]
	h := vc.heap(st, "CHclosed", srt)
	if first && vc.declSet["CHclosed_0"] {
		vc.axiom("(forall ((r Int)) (! (=> (> r alloc_0) (not (select CHclosed_0 r))) :pattern ((select CHclosed_0 r))))")
	}
	return h
}

// modVal: the value a modifies target takes after the call: arbitrary at a call site; in the frame check of the
// function's own body (vc.witness = the state at its return) the value that state actually holds there, so that
// "nothing else changed" can be compared heap by heap.
func (vc *VC) modVal(hint string, s *Sort, wit func(w *State) *Term) *Term {
	if vc.witness != nil {
		return wit(vc.witness)
	}
	return vc.fresh(hint, s)
}

var txnBoundRE = regexp.MustCompile(`^txncount\(\) <= (\d+)$`)

func (vc *VC) evalCallOperands(st *State, f *Frame, c *ssa.CallCommon) (args []Value, fnv Value) {
	if c.IsInvoke() {
		args = append(args, vc.value(st, f, c.Value))
	} else {
		switch v := c.Value.(type) {
		case *ssa.Builtin:
			fnv = nil
		case *ssa.Function:
			fnv = &Closure{Fn: v}
		default:
			fnv = vc.value(st, f, c.Value)
		}
	}
	for _, a := range c.Args {
		args = append(args, vc.value(st, f, a))
	}
	return
}

// resultTypes of a call
func callResultType(c *ssa.CallCommon) types.Type {
	sig := c.Signature()
	switch sig.Results().Len() {
	case 0:
		return nil
	case 1:
		return sig.Results().At(0).Type()
	}
	return sig.Results()
}

func (vc *VC) doCall(st *State, f *Frame, instr ssa.Value, c *ssa.CallCommon, args []Value, fnv Value, deferred bool, pos string) []*State {
	done := func(v Value) []*State {
		if instr != nil && v != nil {
			f.regs[instr] = v
		}
		if !deferred {
			f.idx++
		}
		return nil
	}
	if deferred {
		f.inDefers = true
	}
	vc.curFrame = f
	if vc.contract != nil && len(vc.contract.CallReqs) > 0 {
		// caller-side requirements also cover the calls made by inlined helpers on the function's behalf
		vc.checkCallReqs(st, st.frames[0], c, fnv, args, pos)
	}
	// builtins
	if b, ok := c.Value.(*ssa.Builtin); ok && !c.IsInvoke() {
		return done(vc.builtin(st, f, b, c, args, pos))
	}
	// interface method calls
	if c.IsInvoke() {
		key := ifaceMethodKey(c)
		if h, ok := ifaceHandlers[key]; ok {
			vc.used["model:"+key] = true
			return done(h(vc, st, c, args, pos))
		}
		if ct := vc.eng.findIfaceContract(c); ct != nil {
			vc.used["interface-contract:"+ct.Target] = true
			if len(st.frames) == 1 {
				vc.logCallNamed(st, c.Method.Name(), args)
			}
			return done(vc.applyContract(st, ct, c.Signature(), args, nil, pos, "iface"))
		}
		vc.used["havoc:"+key] = true
		vc.note("interface call %s has no contract: results are arbitrary, heap untouched", key)
		return done(vc.havocResults(st, c, "r_"+c.Method.Name()))
	}
	// dynamic call of a function value
	cl, known := fnv.(*Closure)
	if !known {
		return done(vc.dynamicCall(st, c, args, fnv, pos))
	}
	callee := cl.Fn
	name := callee.String()
	if name == "(*sync.Once).Do" && len(args) == 2 {
		// once.Do(f): f runs iff the Once has not fired yet
		if fcl, ok := args[1].(*Closure); ok && fcl.Fn.Blocks != nil {
			vc.used["model:(*sync.Once).Do"] = true
			p := mutexPtr(vc, args[0])
			fired := vc.load(st, p)
			other := st.clone()
			other.assume(fired)
			of := other.top()
			if !deferred {
				of.idx++
			}
			st.assume(Not(fired))
			vc.store(st, p, tTrue)
			forks := vc.inline(st, f, nil, fcl.Fn, fcl, nil, nil, deferred)
			return append(forks, other)
		}
	}
	if h, ok := handlers[name]; ok {
		vc.used["model:"+name] = true
		return done(h(vc, st, c, args, pos))
	}
	if h, ok := kvModels[name]; ok {
		vc.used["model:"+strings.TrimPrefix(name, vipnodeMod+"/")] = true
		return done(h(vc, st, c, args, pos))
	}
	if (name == "(*"+badgerLib+".DB).Update" || name == "(*"+badgerLib+".DB).View") && len(args) == 2 {
		return vc.kvTransaction(st, f, instr, c, args, strings.HasSuffix(name, "Update"), deferred)
	}
	if ct, ok := vc.eng.db.ByExtern[name]; ok {
		vc.used["assumed-contract:"+name] = true
		return done(vc.applyContract(st, ct, callee.Signature, args, callee, pos, "extern"))
	}
	inRepo := callee.Pkg != nil && strings.HasPrefix(callee.Pkg.Pkg.Path(), vc.eng.modPath) || callee.Parent() != nil && callee.Blocks != nil
	if inRepo && callee.Blocks != nil {
		ct := vc.eng.contractOf(callee)
		if ct != nil && ct.Opaque && callee != vc.fn {
			vc.used["opaque (assumed pure and deterministic): "+name] = true
			return done(vc.opaqueCall(st, callee, args, ct.ByRef))
		}
		interior := false
		for _, a := range args {
			if p, ok := a.(*Ptr); ok && !p.Nil && (len(p.Path) > 0 || p.Root == RElem) {
				interior = true // a pointer into an object cannot be passed to a contract as a plain reference
			}
		}
		if interior && ct != nil && !ct.Trusted && len(st.frames) <= vc.inlineDepth && !vc.onStack(st, callee) {
			vc.note("call of %s with an interior pointer argument: body inlined instead of using its contract", callee.Name())
			return vc.inline(st, f, instr, callee, cl, args, ct, deferred)
		}
		if ct != nil && !ct.Inline && callee != vc.fn && len(cl.Bind) == 0 {
			if ct.Trusted {
				vc.used["trusted-contract:"+name] = true
			} else {
				vc.used["contract:"+name] = true
			}
			if len(st.frames) == 1 {
				vc.logCall(st, callee, args)
			}
			return done(vc.applyContract(st, ct, callee.Signature, args, callee, pos, "func"))
		}
		if len(st.frames) <= vc.inlineDepth && !vc.onStack(st, callee) {
			return vc.inline(st, f, instr, callee, cl, args, ct, deferred)
		}
		vc.note("call of %s not inlined (depth/recursion): results arbitrary, all heaps havocked", name)
		vc.havocAll(st)
		return done(vc.havocResults(st, c, "r_"+callee.Name()))
	}
	// external without model
	vc.used["havoc:"+name] = true
	vc.havocArgs(st, c, args)
	res := vc.havocResults(st, c, "r_"+callee.Name())
	vc.externalErrors(st, c, res)
	return done(res)
}

func (vc *VC) onStack(st *State, fn *ssa.Function) bool {
	for _, fr := range st.frames {
		if fr.fn == fn {
			return true
		}
	}
	return false
}

func (vc *VC) inline(st *State, f *Frame, instr ssa.Value, callee *ssa.Function, cl *Closure, args []Value, ct *Contract, deferred bool) []*State {
	nf := &Frame{fn: callee, regs: map[ssa.Value]Value{}, cut: map[*ssa.BasicBlock]bool{}, iters: map[ssa.Value]*iterState{}, retTo: instr, contract: ct}
	if len(args) != len(callee.Params) {
		refuse("inline %s: %d args for %d params", callee, len(args), len(callee.Params))
	}
	for i, p := range callee.Params {
		nf.regs[p] = args[i]
	}
	for i, fv := range callee.FreeVars {
		if i < len(cl.Bind) {
			nf.regs[fv] = cl.Bind[i]
		}
	}
	st.frames = append(st.frames, nf)
	st.trace = append(st.trace, "call "+callee.Name())
	return vc.enterBlock(st, nf, nil, callee.Blocks[0])
}

func (vc *VC) havocResults(st *State, c *ssa.CallCommon, hint string) Value {
	rt := callResultType(c)
	if rt == nil {
		return nil
	}
	return vc.freshValue(st, rt, hint)
}

// havocArgs: an unknown external callee may write through pointer and slice arguments.
func (vc *VC) havocArgs(st *State, c *ssa.CallCommon, args []Value) {
	T := vc.eng.st
	params := c.Signature().Params()
	off := 0
	if c.Signature().Recv() != nil && !c.IsInvoke() {
		off = 1
	}
	for i, a := range args {
		var pt types.Type
		switch {
		case i < off:
			pt = c.Signature().Recv().Type()
		case i-off < params.Len():
			pt = params.At(i - off).Type()
		default:
			continue
		}
		switch u := pt.Underlying().(type) {
		case *types.Pointer:
			p := vc.asPtr(a, u.Elem())
			ts := vc.targetSort(p)
			vc.store(st, p, vc.fresh("hv", ts))
		case *types.Slice:
			s := vc.term(st, a, "arg")
			es := T.SortOf(u.Elem())
			n, h := vc.arrHeap(st, es)
			vc.setHeap(st, n, Store(h, sliceArr(s), vc.fresh("hva", T.ArrayOf(sortInt, es))))
		}
	}
}

// funcFieldOf: "p.F(...)" where F is a function-valued field: returns "<pkg>.<Type>.<Field>".
func funcFieldOf(v ssa.Value) string {
	u, ok := v.(*ssa.UnOp)
	if !ok || u.Op != token.MUL {
		return ""
	}
	fa, ok := u.X.(*ssa.FieldAddr)
	if !ok {
		return ""
	}
	pt := fa.X.Type().Underlying().(*types.Pointer).Elem()
	n, ok := types.Unalias(pt).(*types.Named)
	if !ok || n.Obj().Pkg() == nil {
		return ""
	}
	st, ok := n.Underlying().(*types.Struct)
	if !ok {
		return ""
	}
	return n.Obj().Pkg().Path() + "." + n.Obj().Name() + "." + st.Field(fa.Field).Name()
}

func (vc *VC) dynamicCall(st *State, c *ssa.CallCommon, args []Value, fnv Value, pos string) Value {
	sig := c.Signature()
	if key := funcFieldOf(c.Value); key != "" {
		if ct, ok := vc.eng.db.ByField[key]; ok {
			vc.used["assumed-contract (function-valued field): "+key] = true
			if len(st.frames) == 1 {
				vc.logCallNamed(st, key[strings.LastIndex(key, ".")+1:], args)
			}
			return vc.applyContract(st, ct, sig, args, nil, pos, "extern")
		}
	}
	// func() time.Time : a clock
	if sig.Params().Len() == 0 && sig.Results().Len() == 1 && isNamed(sig.Results().At(0).Type(), "time", "Time") {
		vc.note("function-valued clock fields read the monotone ghost clock")
		return vc.readClock(st)
	}
	vc.used["havoc:dynamic-call@"+vc.fn.Name()] = true
	for i := 0; i < sig.Params().Len(); i++ {
		if pt, ok := sig.Params().At(i).Type().(*types.Pointer); ok && isNamed(pt.Elem(), badgerLib, "Txn") {
			// an unknown function that is handed the open transaction may write anything through it
			for _, n := range kvHeapNames(st) {
				st.heaps[n] = vc.fresh(n, st.heaps[n].Sort)
			}
			vc.note("call of an unknown function value at %s that receives the database transaction: the database state is arbitrary afterwards", pos)
			return vc.havocResults(st, c, "dyn")
		}
	}
	vc.note("call of an unknown function value at %s: results arbitrary, heap untouched", pos)
	return vc.havocResults(st, c, "dyn")
}

func (vc *VC) readClock(st *State) *Term {
	t := vc.fresh("now", sortInt)
	st.assume(Bin(sortBool, ">=", t, st.clock))
	st.clock = t
	return t
}

// ---------------------------------------------------------------------------
// builtins

// patternSafe: boolean connectives and ite are not allowed inside quantifier patterns.
func patternSafe(t string) bool {
	for _, bad := range []string{"(not ", "(ite ", "(and ", "(or ", "(=> ", "(= ", "(< ", "(<= ", "(> ", "(>= ", "(forall ", "(exists "} {
		if strings.Contains(t, bad) {
			return false
		}
	}
	return true
}

func numeral(t *Term) (int, bool) {
	n, err := strconv.Atoi(t.S)
	return n, err == nil
}

func (vc *VC) builtin(st *State, f *Frame, b *ssa.Builtin, c *ssa.CallCommon, args []Value, pos string) Value {
	T := vc.eng.st
	switch b.Name() {
	case "len":
		v := vc.term(st, args[0], "len")
		switch u := c.Args[0].Type().Underlying().(type) {
		case *types.Slice:
			return sliceLen(v)
		case *types.Basic:
			return App(sortInt, "strlen", v)
		case *types.Map:
			mh := vc.mapHeapsOf(st, u)
			n := Select(mh.n, v, sortInt)
			st.assume(Bin(sortBool, ">=", n, IntLit(0)))
			return Ite(Eq(v, IntLit(0)), IntLit(0), n)
		case *types.Array:
			return IntLit(u.Len())
		case *types.Pointer:
			return IntLit(u.Elem().Underlying().(*types.Array).Len())
		case *types.Chan:
			return vc.fresh("chanlen", sortInt)
		}
	case "cap":
		v := vc.term(st, args[0], "cap")
		if _, ok := c.Args[0].Type().Underlying().(*types.Slice); ok {
			return sliceCap(v)
		}
		return vc.fresh("cap", sortInt)
	case "append":
		s := vc.term(st, args[0], "append")
		if len(args) < 2 {
			return s
		}
		t := vc.term(st, args[1], "append")
		var es *Sort
		if sl, ok := c.Args[0].Type().Underlying().(*types.Slice); ok {
			es = T.SortOf(sl.Elem())
		} else {
			refuse("append to %s", c.Args[0].Type())
		}
		if t.Sort.Kind == KStr { // append([]byte, string...)
			refuse("append of a string to a byte slice")
		}
		as := T.ArrayOf(sortInt, es)
		n, h := vc.arrHeap(st, es)
		oldArr := Select(h, sliceArr(s), as)
		srcArr := Select(h, sliceArr(t), as)
		r := vc.newRef(st, "arr")
		base := Bin(sortInt, "+", sliceOff(s), sliceLen(s))
		var newArr *Term
		if k, ok := numeral(sliceLen(t)); ok && k <= 8 {
			// a named array with its defining facts (rather than a store term): the ground terms
			// (select new pos) and the two-way transfer lemma give quantified invariants over the
			// elements something to match on
			newArr = vc.fresh("apparr", as)
			var excl []string
			for i := 0; i < k; i++ {
				pos := Bin(sortInt, "+", base, IntLit(int64(i)))
				st.assume(Eq(Select(newArr, pos, es), Select(srcArr, Bin(sortInt, "+", sliceOff(t), IntLit(int64(i))), es)))
				excl = append(excl, fmt.Sprintf("(not (= ap%d %s))", vc.nfresh, pos.S))
			}
			q := fmt.Sprintf("ap%d", vc.nfresh)
			vc.nfresh++
			cond := "true"
			if len(excl) == 1 {
				cond = excl[0]
			} else if len(excl) > 1 {
				cond = "(and " + strings.Join(excl, " ") + ")"
			}
			pat2 := ""
			if patternSafe(oldArr.S) {
				pat2 = fmt.Sprintf(" :pattern ((select %s %s))", oldArr.S, q)
			}
			st.assume(T_(sortBool, fmt.Sprintf("(forall ((%s Int)) (! (=> %s (= (select %s %s) (select %s %s))) :pattern ((select %s %s))%s))",
				q, cond, newArr.S, q, oldArr.S, q, newArr.S, q, pat2)))
		} else {
			newArr = vc.fresh("apparr", as)
			q := fmt.Sprintf("ai%d", vc.nfresh)
			vc.nfresh++
			end := Bin(sortInt, "+", base, sliceLen(t))
			// quantified over absolute positions so that the triggers are free of arithmetic
			pat2 := ""
			if patternSafe(oldArr.S) {
				pat2 = fmt.Sprintf(" :pattern ((select %s %s))", oldArr.S, q)
			}
			st.assume(T_(sortBool, fmt.Sprintf("(forall ((%s Int)) (! (=> (and (<= %s %s) (< %s %s)) (= (select %s %s) (select %s %s))) :pattern ((select %s %s))%s))",
				q, sliceOff(s).S, q, q, base.S, newArr.S, q, oldArr.S, q, newArr.S, q, pat2)))
			st.assume(T_(sortBool, fmt.Sprintf("(forall ((%s Int)) (! (=> (and (<= %s %s) (< %s %s)) (= (select %s %s) (select %s (+ (- %s %s) %s)))) :pattern ((select %s %s))))",
				q, base.S, q, q, end.S, newArr.S, q, srcArr.S, q, base.S, sliceOff(t).S, newArr.S, q)))
		}
		vc.setHeap(st, n, Store(vc.heap(st, n, h.Sort), r, newArr))
		nl := Bin(sortInt, "+", sliceLen(s), sliceLen(t))
		nc := vc.fresh("cap", sortInt)
		st.assume(Bin(sortBool, ">=", nc, nl))
		vc.note("append is modelled as always allocating a new backing array (old contents copied)")
		return mkSlice(r, sliceOff(s), nl, Bin(sortInt, "+", nc, IntLit(0)))
	case "delete":
		mt := c.Args[0].Type().Underlying().(*types.Map)
		vc.guardCheckMap(st, f, c.Args[0], token.NoPos)
		vc.mapDelete(st, mt, vc.term(st, args[0], "delete"), vc.term(st, args[1], "delete"))
		return nil
	case "close":
		ch := vc.term(st, args[0], "close")
		vc.safetyCheck(st, "chan", Not(Eq(ch, IntLit(0))), token.NoPos)
		// closing a closed channel panics; a closed channel stays closed (ghost heap CHclosed, see closed(ch) in specs)
		h := vc.chanClosed(st)
		vc.safetyCheck(st, "close-of-closed-channel", Not(Select(h, ch, sortBool)), token.NoPos)
		vc.setHeap(st, "CHclosed", Store(h, ch, tTrue))
		st.events = append(st.events, Event{Kind: "close", Args: []Value{ch}})
		return nil
	case "print", "println":
		return nil
	case "recover":
		return T.Zero(sortIface)
	case "copy":
		refuse("builtin copy")
	case "min", "max":
		a, b2 := vc.term(st, args[0], "min"), vc.term(st, args[1], "min")
		if b.Name() == "min" {
			return Ite(Bin(sortBool, "<=", a, b2), a, b2)
		}
		return Ite(Bin(sortBool, ">=", a, b2), a, b2)
	}
	refuse("builtin %s", b.Name())
	return nil
}

// ---------------------------------------------------------------------------
// contracts at call sites

func ifaceMethodKey(c *ssa.CallCommon) string {
	m := c.Method
	recv := m.Type().(*types.Signature).Recv().Type()
	if n, ok := types.Unalias(recv).(*types.Named); ok {
		pkg := ""
		if n.Obj().Pkg() != nil {
			pkg = n.Obj().Pkg().Path() + "."
		}
		return pkg + n.Obj().Name() + "." + m.Name()
	}
	// method of an unnamed/embedded interface: use the static type of the receiver
	if n, ok := types.Unalias(c.Value.Type()).(*types.Named); ok {
		pkg := ""
		if n.Obj().Pkg() != nil {
			pkg = n.Obj().Pkg().Path() + "."
		}
		return pkg + n.Obj().Name() + "." + m.Name()
	}
	return "?." + m.Name()
}

func (e *Engine) findIfaceContract(c *ssa.CallCommon) *Contract {
	key := ifaceMethodKey(c)
	key = strings.TrimPrefix(key, e.modPath+"/")
	// contracts are written as "store.BalanceStore.GetNodeBalance": last path element of the package
	parts := strings.Split(key, "/")
	short := parts[len(parts)-1]
	if ct, ok := e.db.ByIface[short]; ok {
		return ct
	}
	if ct, ok := e.db.ByIface[key]; ok {
		return ct
	}
	return nil
}

func (e *Engine) contractOf(fn *ssa.Function) *Contract {
	if fn.Pkg == nil {
		return nil
	}
	key := fn.Pkg.Pkg.Path() + "." + fn.RelString(fn.Pkg.Pkg)
	return e.db.ByFunc[key]
}

// contractEnv binds parameter names for a contract applied to concrete argument values.
func (vc *VC) contractEnv(st *State, ct *Contract, sig *types.Signature, args []Value, callee *ssa.Function, mode string) *Env {
	env := &Env{vc: vc, st: st, vars: map[string]SV{}, nq: &vc.nq}
	switch mode {
	case "iface":
		// args[0] is the receiver interface value
		recvT := sig.Recv()
		var rt types.Type
		if recvT != nil {
			rt = recvT.Type()
		}
		this := SV{vc.term(st, args[0], "this"), rt}
		env.this = &this
		env.vars["this"] = this
		for i := 0; i < sig.Params().Len() && i+1 < len(args); i++ {
			name := sig.Params().At(i).Name()
			if i < len(ct.Params) {
				name = ct.Params[i]
			}
			env.vars[name] = SV{vc.term(st, args[i+1], name), sig.Params().At(i).Type()}
		}
		if n, ok := types.Unalias(rt).(*types.Named); ok && n.Obj().Pkg() != nil {
			env.pkg = n.Obj().Pkg()
		}
	default:
		i := 0
		if sig.Recv() != nil {
			name := sig.Recv().Name()
			if callee != nil && len(callee.Params) > 0 {
				name = callee.Params[0].Name()
			}
			if mode == "extern" {
				name = "this"
				if len(ct.Params) > sig.Params().Len() {
					name = ct.Params[0]
				}
			}
			v := SV{vc.term(st, args[0], name), sig.Recv().Type()}
			env.vars[name] = v
			env.vars["this"] = v
			i = 1
		}
		for k := 0; k < sig.Params().Len() && i+k < len(args); k++ {
			name := sig.Params().At(k).Name()
			if callee != nil && i+k < len(callee.Params) {
				name = callee.Params[i+k].Name()
			}
			if mode == "extern" && len(ct.Params) > 0 {
				idx := k
				if len(ct.Params) > sig.Params().Len() {
					idx = k + 1
				}
				if idx < len(ct.Params) {
					name = ct.Params[idx]
				}
			}
			env.vars[name] = SV{vc.term(st, args[i+k], name), sig.Params().At(k).Type()}
		}
		if callee != nil && callee.Pkg != nil {
			env.pkg = callee.Pkg.Pkg
		}
	}
	if env.pkg == nil && vc.fn.Pkg != nil {
		env.pkg = vc.fn.Pkg.Pkg
	}
	return env
}

func resultNames(ct *Contract, sig *types.Signature) []string {
	n := sig.Results().Len()
	names := make([]string, n)
	for i := 0; i < n; i++ {
		r := sig.Results().At(i)
		switch {
		case ct != nil && i < len(ct.Results):
			names[i] = ct.Results[i]
		case r.Name() != "" && r.Name() != "_":
			names[i] = r.Name()
		case i == n-1 && isErrorType(r.Type()):
			names[i] = "err"
		case n == 1 || (n == 2 && i == 0):
			names[i] = "result"
		default:
			names[i] = fmt.Sprintf("result%d", i)
		}
	}
	return names
}

func (vc *VC) bindLets(env *Env, ct *Contract) *Env {
	for _, l := range ct.Lets {
		v, err := env.EvalAny(l.E)
		if err != nil {
			vc.eng.specError(fmt.Sprintf("%s: let %s: %v", ct.Target, l.Name, err))
			continue
		}
		env = env.with(l.Name, v)
	}
	return env
}

func (vc *VC) applyContract(st *State, ct *Contract, sig *types.Signature, args []Value, callee *ssa.Function, pos string, mode string) Value {
	env := vc.contractEnv(st, ct, sig, args, callee, mode)
	pre := st.snapshot()
	envPre := vc.bindLets(env.inState(pre), ct)
	envPre.old = pre
	for _, cl := range ct.Requires {
		t, err := envPre.EvalBool(cl.E)
		if err != nil {
			vc.eng.specError(fmt.Sprintf("%s: requires: %v", ct.Target, err))
			continue
		}
		label := cl.Label
		if label != "" {
			label = "[" + label + "]"
		}
		vc.oblige(st, fmt.Sprintf("pre%s@%s", label, vc.site()), t, vc.props, pos)
		st.assume(t)
	}
	// frame
	if !ct.ModSet {
		vc.note("contract of %s has no modifies clause: all heaps havocked at its call sites", ct.Target)
		vc.havocAll(st)
		// database transactions the callee may have run: what its contract bounds them by, else unknown (many)
		bound := 1000
		for _, cl := range ct.Ensures {
			if m := txnBoundRE.FindStringSubmatch(strings.TrimSpace(cl.Src)); m != nil {
				bound, _ = strconv.Atoi(m[1])
			}
		}
		st.txnCount += bound
	} else {
		for _, m := range ct.Modifies {
			vc.havocLocation(envPre, st, m, ct)
		}
	}
	// results
	names := resultNames(ct, sig)
	var results Tuple
	post := env.inState(st)
	post.old = pre
	post.vars = map[string]SV{}
	for k, v := range envPre.vars {
		post.vars[k] = v
	}
	for i := 0; i < sig.Results().Len(); i++ {
		rt := sig.Results().At(i).Type()
		v := vc.freshValue(st, rt, "r_"+smtName(lastSeg(ct.Target))+"_"+names[i])
		results = append(results, v)
		post.vars[names[i]] = SV{v.(*Term), rt}
	}
	for _, cl := range append(append([]*Clause{}, ct.Ensures...), ct.Defines...) {
		if localOnlyClause(cl) {
			// a clause over the callee's own spawn / call logs says nothing a caller can name
			continue
		}
		t, err := post.EvalBool(cl.E)
		if err != nil {
			vc.eng.specError(fmt.Sprintf("%s: ensures [%s]: %v", ct.Target, cl.Label, err))
			continue
		}
		st.assume(t)
	}
	if len(ct.Defines) > 0 {
		vc.note("ghost state is defined by the 'defines' clauses of %s (not checked against its body)", ct.Target)
	}
	switch len(results) {
	case 0:
		return nil
	case 1:
		return results[0]
	}
	return results
}

func lastSeg(s string) string {
	if i := strings.LastIndexAny(s, "./"); i >= 0 {
		return s[i+1:]
	}
	return s
}

// havocLocation replaces the contents of the location designated by a modifies expression.
func (vc *VC) havocLocation(env *Env, st *State, m Expr, ct *Contract) {
	T := vc.eng.st
	fail := func(err interface{}) {
		vc.eng.specError(fmt.Sprintf("%s: modifies: %v", ct.Target, err))
	}
	defer func() {
		if r := recover(); r != nil {
			if se, ok := r.(specErr); ok {
				fail(se.msg)
				return
			}
			panic(r)
		}
	}()
	switch x := m.(type) {
	case *EIdent:
		switch x.Name {
		case "clock":
			if w := vc.witness; w != nil {
				st.clock = w.clock
				return
			}
			nc := vc.fresh("clock", sortInt)
			st.assume(Bin(sortBool, ">=", nc, st.clock))
			st.clock = nc
			return
		case "alloc":
			if w := vc.witness; w != nil {
				st.alloc = w.alloc
				return
			}
			na := vc.fresh("alloc", sortInt)
			st.assume(Bin(sortBool, ">=", na, st.alloc))
			st.alloc = na
			return
		case "everything":
			if w := vc.witness; w != nil {
				for k, v := range w.heaps {
					st.heaps[k] = v
				}
				for k, v := range w.ghosts {
					st.ghosts[k] = v
				}
				st.clock, st.alloc = w.clock, w.alloc
				return
			}
			vc.havocAll(st)
			return
		}
		if g, ok := vc.eng.db.Ghosts[x.Name]; ok && !g.Field {
			_, gs := env.inPkg(g.Pkg).resolveType(g.Type)
			st.ghosts[g.Name] = vc.modVal("G_"+g.Name, gs, func(w *State) *Term { return vc.ghostVar(w, g) })
			return
		}
		if g, ok := vc.eng.db.Ghosts[x.Name]; ok && g.Field {
			// a bare ghost field name: that ghost field of every object
			_, gs := env.inPkg(g.Pkg).resolveType(g.Type)
			st.heaps["GF_"+g.Name] = vc.modVal("GF_"+g.Name, T.ArrayOf(sortInt, gs), func(w *State) *Term { return vc.ghostFieldHeap(w, g, gs) })
			return
		}
		// a map- or pointer-typed parameter: its contents / pointee
		v := env.eval(x)
		vc.havocValueContents(st, v)
		return
	case *ESel:
		base := env.eval(x.X)
		// ghost field?
		if g, ok := vc.eng.db.Ghosts[x.Name]; ok && g.Field {
			if base.T == nil || !hasGoField(base.T, x.Name) {
				_, gs := env.inPkg(g.Pkg).resolveType(g.Type)
				h := vc.ghostFieldHeap(st, g, gs)
				ref := env.refOf(base)
				vc.setHeap(st, "GF_"+g.Name, Store(h, ref, vc.modVal("gf_"+g.Name, gs, func(w *State) *Term { return Select(vc.ghostFieldHeap(w, g, gs), ref, gs) })))
				return
			}
		}
		// Go field of a pointer-typed base: havoc that field of the pointee
		pt, isPtr := derefType(base.T)
		if !isPtr {
			fail("modifies " + x.Name + ": base is not a pointer")
			return
		}
		idx, fv, ok := findFieldAnyPkg(pt, x.Name)
		if !ok || len(idx) != 1 {
			fail("modifies: no direct field " + x.Name)
			return
		}
		s := T.SortOf(pt)
		p := &Ptr{Root: RObj, Base: base.V, Sort: s, Path: []PathStep{{Field: idx[0]}}}
		// a map-typed field: "modifies s.m" means the contents of the map, not the field
		if _, isMap := fv.Type().Underlying().(*types.Map); isMap {
			vc.havocValueContents(st, SV{vc.load(st, p), fv.Type()})
			return
		}
		vc.store(st, p, vc.modVal("mod_"+x.Name, vc.targetSort(p), func(w *State) *Term { return vc.term(w, vc.load(w, p), "frame") }))
		return
	case *ECall:
		if x.Fun == "contents" && len(x.Args) == 1 {
			vc.havocValueContents(st, env.eval(x.Args[0]))
			return
		}
		if x.Fun == "fieldof" && len(x.Args) == 1 {
			// the field itself (not what it refers to)
			if sel, ok := x.Args[0].(*ESel); ok {
				base := env.eval(sel.X)
				pt, isPtr := derefType(base.T)
				if isPtr {
					if idx, _, ok := findFieldAnyPkg(pt, sel.Name); ok && len(idx) == 1 {
						s := T.SortOf(pt)
						p := &Ptr{Root: RObj, Base: base.V, Sort: s, Path: []PathStep{{Field: idx[0]}}}
						fv := vc.modVal("mod_"+sel.Name, vc.targetSort(p), func(w *State) *Term { return vc.term(w, vc.load(w, p), "frame") })
						if st2, ok := types.Unalias(pt).Underlying().(*types.Struct); ok && vc.witness == nil {
							vc.typeFacts(st, fv, st2.Field(idx[0]).Type())
						}
						vc.store(st, p, fv)
						return
					}
				}
			}
			fail("fieldof(x.f): x must be a pointer to a struct with field f")
			return
		}
		if x.Fun == "heapof" && len(x.Args) == 1 {
			// all objects of a type
			if id, ok := x.Args[0].(*EIdent); ok {
				t, s := env.resolveType(id.Name)
				_ = t
				n, h := vc.objHeap(st, s)
				st.heaps[n] = vc.modVal(n, h.Sort, func(w *State) *Term { _, wh := vc.objHeap(w, s); return wh })
				return
			}
		}
	}
	fail(fmt.Sprintf("unsupported modifies target %T", m))
}

func hasGoField(t types.Type, name string) bool {
	_, _, ok := findFieldAnyPkg(t, name)
	return ok
}

// havocValueContents: map -> its entries; pointer -> its pointee; slice -> its backing array.
func (vc *VC) havocValueContents(st *State, v SV) {
	T := vc.eng.st
	if v.T == nil {
		specFail("modifies: ghost value has no contents")
	}
	switch u := types.Unalias(v.T).Underlying().(type) {
	case *types.Map:
		ks, es := T.SortOf(u.Key()), T.SortOf(u.Elem())
		mh := vc.mapHeapsOf(st, u)
		if w := vc.witness; w != nil {
			wh := vc.mapHeapsOf(w, u)
			vc.setHeap(st, mh.pn, Store(mh.p, v.V, Select(wh.p, v.V, T.ArrayOf(ks, sortBool))))
			vc.setHeap(st, mh.vn, Store(mh.v, v.V, Select(wh.v, v.V, T.ArrayOf(ks, es))))
			vc.setHeap(st, mh.nn, Store(mh.n, v.V, Select(wh.n, v.V, sortInt)))
			vc.measureHavocAt(st, u, v.V)
			return
		}
		vc.setHeap(st, mh.pn, Store(mh.p, v.V, vc.fresh("mp", T.ArrayOf(ks, sortBool))))
		vc.setHeap(st, mh.vn, Store(mh.v, v.V, vc.fresh("mv", T.ArrayOf(ks, es))))
		n := vc.fresh("mn", sortInt)
		st.assume(Bin(sortBool, ">=", n, IntLit(0)))
		vc.setHeap(st, mh.nn, Store(mh.n, v.V, n))
		vc.measureHavocAt(st, u, v.V)
	case *types.Pointer:
		s := T.SortOf(u.Elem())
		n, h := vc.objHeap(st, s)
		vc.setHeap(st, n, Store(h, v.V, vc.modVal("pt", s, func(w *State) *Term { _, wh := vc.objHeap(w, s); return Select(wh, v.V, s) })))
	case *types.Slice:
		es := T.SortOf(u.Elem())
		n, h := vc.arrHeap(st, es)
		vc.setHeap(st, n, Store(h, sliceArr(v.V), vc.modVal("sa", T.ArrayOf(sortInt, es), func(w *State) *Term { _, wh := vc.arrHeap(w, es); return Select(wh, sliceArr(v.V), T.ArrayOf(sortInt, es)) })))
	default:
		specFail("modifies: %s has no contents", v.T)
	}
}

// callMods: static over-approximation of what a call in a loop body modifies.
func (vc *VC) callMods(fn *ssa.Function, c *ssa.CallCommon, li *loopInfo, visiting map[*ssa.Function]bool) []modTarget {
	T := vc.eng.st
	var out []modTarget
	if b, ok := c.Value.(*ssa.Builtin); ok && !c.IsInvoke() {
		switch b.Name() {
		case "append":
			if sl, ok := c.Args[0].Type().Underlying().(*types.Slice); ok {
				es := T.SortOf(sl.Elem())
				out = append(out, modTarget{heap: heapName("HA", es), sort: es, kind: "arr-new"})
			}
		case "delete":
			out = append(out, modTarget{kind: "map", mt: c.Args[0].Type().Underlying().(*types.Map)})
		case "close":
			out = append(out, modTarget{kind: "chclosed"})
		}
		return out
	}
	contractMods := func(ct *Contract, what string) {
		if !ct.ModSet {
			out = append(out, modTarget{kind: "all", heap: what + " without modifies clause"})
			return
		}
		for _, m := range ct.Modifies {
			out = append(out, vc.staticModTarget(ct, m, c)...)
		}
	}
	if c.IsInvoke() {
		key := ifaceMethodKey(c)
		if _, ok := ifaceHandlers[key]; ok {
			return nil
		}
		if ct := vc.eng.findIfaceContract(c); ct != nil {
			contractMods(ct, key)
		}
		return out
	}
	var callee *ssa.Function
	switch v := c.Value.(type) {
	case *ssa.Function:
		callee = v
	case *ssa.MakeClosure:
		callee = v.Fn.(*ssa.Function)
	default:
		sig := c.Signature()
		if key := funcFieldOf(c.Value); key != "" {
			if ct, ok := vc.eng.db.ByField[key]; ok {
				contractMods(ct, key)
				return out
			}
		}
		if sig.Params().Len() == 0 && sig.Results().Len() == 1 && isNamed(sig.Results().At(0).Type(), "time", "Time") {
			return []modTarget{{kind: "clock"}}
		}
		for i := 0; i < sig.Params().Len(); i++ {
			if pt, ok := sig.Params().At(i).Type().(*types.Pointer); ok && isNamed(pt.Elem(), badgerLib, "Txn") {
				return []modTarget{{kind: "kv"}}
			}
		}
		// a call of a function value held in a parameter or variable: what it may write is known only once the value
		// is (when the enclosing function has been inlined with a function literal as argument)
		return []modTarget{{kind: "call-value", ref: c.Value}}
	}
	name := callee.String()
	if name == "time.Now" || name == "time.Since" {
		return []modTarget{{kind: "clock"}}
	}
	if _, ok := handlers[name]; ok {
		if m, ok := handlerMods[name]; ok {
			for _, ai := range m {
				if ai < len(c.Args) {
					out = append(out, vc.addrTarget(c.Args[ai], li))
				}
			}
		}
		if name == "math/big.NewInt" {
			out = append(out, modTarget{heap: heapName("H", sortBig), sort: sortBig, kind: "obj-new"})
		}
		return out
	}
	if _, ok := kvModels[name]; ok {
		switch {
		case strings.HasSuffix(name, ".getItem"):
			if mi, ok := c.Args[2].(*ssa.MakeInterface); ok {
				if pt, ok := mi.X.Type().Underlying().(*types.Pointer); ok {
					out = append(out, vc.addrTarget(mi.X, li))
					if mt, isMap := types.Unalias(pt.Elem()).Underlying().(*types.Map); isMap {
						out = append(out, modTarget{kind: "map", mt: mt})
					}
				}
			}
		case strings.HasSuffix(name, ".hasKey"), strings.HasSuffix(name, ".NewIterator"), strings.HasSuffix(name, ".Close"),
			strings.HasSuffix(name, ".ValidForPrefix"), strings.HasSuffix(name, ".Item"):
		case strings.HasPrefix(name, "(*bytes.Buffer)."):
			if !strings.HasSuffix(name, ".String") {
				out = append(out, modTarget{kind: "bufstr"})
			}
		case name == "math/rand.Shuffle":
			if mc, ok := c.Args[1].(*ssa.MakeClosure); ok {
				if fn, ok := mc.Fn.(*ssa.Function); ok && len(fn.FreeVars) == 1 {
					if pt, ok := fn.FreeVars[0].Type().Underlying().(*types.Pointer); ok {
						if sl, ok := pt.Elem().Underlying().(*types.Slice); ok {
							es := T.SortOf(sl.Elem())
							out = append(out, modTarget{heap: heapName("HA", es), sort: es, kind: "arr"})
							return out
						}
					}
				}
			}
			out = append(out, modTarget{kind: "all", heap: "rand.Shuffle"})
		case strings.HasSuffix(name, ".Seek"), strings.HasSuffix(name, ".Next"):
			out = append(out, modTarget{kind: "kvit"})
		case strings.HasSuffix(name, ".Key"):
			out = append(out, modTarget{heap: heapName("HA", sortInt), sort: sortInt, kind: "arr-new"})
		case strings.HasSuffix(name, ".Value"):
			if mc, ok := c.Args[1].(*ssa.MakeClosure); ok {
				for _, b := range mc.Bindings {
					pt, isPtr := b.Type().Underlying().(*types.Pointer)
					if !isPtr {
						continue
					}
					if _, isIface := pt.Elem().Underlying().(*types.Interface); isIface {
						// the callback decodes into whatever the captured interface variable points to: the variable
						// itself is only read; its pointee is resolved when the loop is cut
						out = append(out, modTarget{kind: "deref-iface", ref: b})
						continue
					}
					out = append(out, vc.addrTarget(b, li))
				}
			} else {
				out = append(out, modTarget{kind: "all", heap: "Item.Value with a function value"})
			}
		default:
			out = append(out, modTarget{kind: "kv"})
		}
		return out
	}
	if name == "(*"+badgerLib+".DB).Update" || name == "(*"+badgerLib+".DB).View" {
		out = append(out, modTarget{kind: "kv"})
		if mc, ok := c.Args[1].(*ssa.MakeClosure); ok {
			if fn, ok := mc.Fn.(*ssa.Function); ok && !visiting[fn] {
				visiting[fn] = true
				out = append(out, vc.loopMods(fn, nil, visiting)...)
				delete(visiting, fn)
			}
		}
		return out
	}
	if ct, ok := vc.eng.db.ByExtern[name]; ok {
		contractMods(ct, name)
		return out
	}
	if callee.Blocks != nil {
		ct := vc.eng.contractOf(callee)
		if ct != nil && ct.Opaque {
			return nil // pure by contract
		}
		if ct != nil && !ct.Inline && c.Value == callee {
			contractMods(ct, name)
			return out
		}
		if visiting[callee] {
			return []modTarget{{kind: "all", heap: "recursion through " + name}}
		}
		visiting[callee] = true
		inner := vc.loopMods(callee, nil, visiting)
		delete(visiting, callee)
		for _, m := range inner {
			m.ref = nil // callee-local allocs are not objects of this frame
			out = append(out, m)
		}
		// boxes and big.Int buffers allocated by the callee are fresh objects as well
		return out
	}
	// unknown external: pointees of pointer arguments
	for _, a := range c.Args {
		switch u := a.Type().Underlying().(type) {
		case *types.Pointer:
			out = append(out, vc.addrTarget(a, li))
		case *types.Slice:
			es := T.SortOf(u.Elem())
			out = append(out, modTarget{heap: heapName("HA", es), sort: es, kind: "arr"})
		}
	}
	return out
}

// staticModTarget maps a modifies expression to heaps without evaluating it.
func (vc *VC) staticModTarget(ct *Contract, m Expr, c *ssa.CallCommon) []modTarget {
	T := vc.eng.st
	switch x := m.(type) {
	case *EIdent:
		switch x.Name {
		case "clock":
			return []modTarget{{kind: "clock"}}
		case "alloc":
			return nil
		case "everything":
			return []modTarget{{kind: "all", heap: ct.Target}}
		}
		if g, ok := vc.eng.db.Ghosts[x.Name]; ok {
			return []modTarget{{kind: "ghost", heap: g.Name}}
		}
		if t := vc.staticParamType(ct, x.Name, c); t != nil {
			return vc.contentsTargets(t)
		}
	case *ESel:
		if g, ok := vc.eng.db.Ghosts[x.Name]; ok && g.Field {
			return []modTarget{{kind: "ghost", heap: g.Name}}
		}
		if id, ok := x.X.(*EIdent); ok {
			if t := vc.staticParamType(ct, id.Name, c); t != nil {
				if pt, isPtr := derefType(t); isPtr {
					if _, fv, ok := findFieldAnyPkg(pt, x.Name); ok {
						if mt, isMap := fv.Type().Underlying().(*types.Map); isMap {
							return []modTarget{{kind: "map", mt: mt}}
						}
						s := T.SortOf(pt)
						return []modTarget{{heap: heapName("H", s), sort: s, kind: "obj"}}
					}
				}
			}
		}
	case *ECall:
		if x.Fun == "fieldof" && len(x.Args) == 1 {
			if sel, ok := x.Args[0].(*ESel); ok {
				if id, ok := sel.X.(*EIdent); ok {
					if t := vc.staticParamType(ct, id.Name, c); t != nil {
						if pt, isPtr := derefType(t); isPtr {
							s := T.SortOf(pt)
							return []modTarget{{heap: heapName("H", s), sort: s, kind: "obj"}}
						}
					}
				}
			}
		}
		if x.Fun == "heapof" {
			if id, ok := x.Args[0].(*EIdent); ok {
				env := &Env{vc: vc, st: vc.entry, pkg: vc.fn.Pkg.Pkg, nq: &vc.nq}
				func() {
					defer func() { recover() }()
					_, s := env.resolveType(id.Name)
					_ = s
				}()
			}
		}
	}
	return []modTarget{{kind: "all", heap: "modifies clause of " + ct.Target + " not analysable"}}
}

func (vc *VC) contentsTargets(t types.Type) []modTarget {
	T := vc.eng.st
	switch u := types.Unalias(t).Underlying().(type) {
	case *types.Map:
		return []modTarget{{kind: "map", mt: u}}
	case *types.Pointer:
		s := T.SortOf(u.Elem())
		return []modTarget{{heap: heapName("H", s), sort: s, kind: "obj"}}
	case *types.Slice:
		es := T.SortOf(u.Elem())
		return []modTarget{{heap: heapName("HA", es), sort: es, kind: "arr"}}
	}
	return []modTarget{{kind: "all", heap: "contents of " + t.String()}}
}

func (vc *VC) staticParamType(ct *Contract, name string, c *ssa.CallCommon) types.Type {
	sig := c.Signature()
	if name == "this" && sig.Recv() != nil {
		return sig.Recv().Type()
	}
	if !c.IsInvoke() {
		if callee := c.StaticCallee(); callee != nil {
			for _, p := range callee.Params {
				if p.Name() == name {
					return p.Type()
				}
			}
		}
	}
	for i := 0; i < sig.Params().Len(); i++ {
		n := sig.Params().At(i).Name()
		if i < len(ct.Params) {
			n = ct.Params[i]
		}
		if n == name {
			return sig.Params().At(i).Type()
		}
	}
	return nil
}

// ---------------------------------------------------------------------------
// finish: postconditions of the function under contract

func (vc *VC) envFor(st *State, f *Frame) *Env {
	env := &Env{vc: vc, st: st, vars: map[string]SV{}, nq: &vc.nq}
	if f.fn.Pkg != nil {
		env.pkg = f.fn.Pkg.Pkg
	} else if f.fn.Parent() != nil && f.fn.Parent().Pkg != nil {
		env.pkg = f.fn.Parent().Pkg.Pkg
	}
	for _, p := range f.fn.Params {
		if v, ok := f.regs[p]; ok {
			env.vars[p.Name()] = SV{vc.term(st, v, p.Name()), p.Type()}
		}
	}
	if f.contract != nil && len(st.frames) == 1 {
		for k, v := range vc.lets {
			env.vars[k] = v
		}
	}
	return env
}

func (vc *VC) finish(st *State, f *Frame, res []Value, pos token.Pos) {
	ct := vc.contract
	vc.nreturns++
	vc.cover(st, "cover@"+vc.site(), vc.posOf(pos))
	if ct == nil {
		return
	}
	env := vc.envFor(st, f)
	env.old = vc.entry
	env.retFrame = f
	names := resultNames(ct, f.fn.Signature)
	vc.extraValues = nil
	for i, r := range res {
		rt := vc.term(st, r, names[i])
		env.vars[names[i]] = SV{rt, f.fn.Signature.Results().At(i).Type()}
		vc.extraValues = append(vc.extraValues, rt.S)
		vc.valueLabels[strings.Join(strings.Fields(rt.S), " ")] = "result:" + names[i]
	}
	defer func() { vc.extraValues = nil }()
	// all postconditions of one return path share the path condition: evaluate them first (evaluation
	// may add facts), then emit them as one group so that they can be tried as a single conjunction
	type pending struct {
		cl *Clause
		t  *Term
	}
	var goals []pending
	for _, cl := range ct.Ensures {
		t, err := env.EvalBool(cl.E)
		if err != nil {
			vc.unprovable("post["+cl.Label+"]", vc.clauseProps(ct, cl), vc.posOf(pos), err)
			continue
		}
		goals = append(goals, pending{cl, t})
	}
	// interface contracts this function implements: their ensures are checked through the
	// abstraction of the receiver's type ("defines" clauses describe history ghosts and are skipped)
	type implGoal struct {
		label string
		props []string
		t     *Term
	}
	var igoals []implGoal
	for _, key := range ct.Implements {
		ict := vc.eng.db.ByIface[key]
		if ict == nil {
			vc.eng.specError(fmt.Sprintf("%s: implements unknown interface contract %s", ct.Target, key))
			continue
		}
		ienv := vc.implEnv(st, f, ict, res)
		if ienv == nil {
			continue
		}
		ienv.old = vc.entry
		for _, cl := range ict.Ensures {
			if ct.ImplExcept[key+"."+cl.Label] {
				vc.note("%s does not claim clause [%s] of %s", ct.Target, cl.Label, key)
				continue
			}
			t, err := ienv.EvalBool(cl.E)
			if err != nil {
				vc.eng.specError(fmt.Sprintf("%s implements %s: ensures [%s]: %v", ct.Target, key, cl.Label, err))
				continue
			}
			props := cl.Props
			if len(props) == 0 {
				props = vc.clauseProps(ct, cl)
			}
			igoals = append(igoals, implGoal{"post[" + lastSeg(key) + "." + cl.Label + "]", props, t})
		}
		// the frame of the interface contract: callers assume that every abstract field it does not list under
		// modifies is left as it was; through the abstraction that is a statement about this implementation
		if ict.ModSet && os.Getenv("VERIF_NO_FRAME") == "" {
			modded := map[string]bool{}
			all := false
			for _, m := range ict.Modifies {
				switch x := m.(type) {
				case *EIdent:
					if x.Name == "everything" {
						all = true
					}
					modded[x.Name] = true
				case *ESel:
					if id, ok := x.X.(*EIdent); ok && id.Name == "this" {
						modded[x.Name] = true
					}
				}
			}
			if t0, _ := derefType(ienv.this.T); t0 != nil && !all {
				if n, ok := types.Unalias(t0).(*types.Named); ok && n.Obj().Pkg() != nil {
					defs := vc.eng.db.Abstractions[n.Obj().Pkg().Path()+"."+n.Obj().Name()]
					var fields []string
					for fname := range defs {
						fields = append(fields, fname)
					}
					sort.Strings(fields)
					for _, fname := range fields {
						g, ok := vc.eng.db.Ghosts[fname]
						if modded[fname] || !ok || !g.Field {
							continue
						}
						src := fmt.Sprintf("this.%s == old(this.%s)", fname, fname)
						if kt := ghostKeyType(g.Type); kt != "" {
							src = fmt.Sprintf("forall fk %s :: this.%s[fk] == old(this.%s[fk])", kt, fname, fname)
							if k2 := ghostKeyType(ghostValType(g.Type)); k2 != "" {
								src = fmt.Sprintf("forall fk %s, fj %s :: this.%s[fk][fj] == old(this.%s[fk][fj])", kt, k2, fname, fname)
							}
						}
						e, err := ParseExpr(src)
						if err != nil {
							vc.eng.specError(fmt.Sprintf("%s implements %s: frame of %s: %v", ct.Target, key, fname, err))
							continue
						}
						t, err := ienv.inPkg(g.Pkg).EvalBool(e)
						if err != nil {
							vc.eng.specError(fmt.Sprintf("%s implements %s: frame of %s: %v", ct.Target, key, fname, err))
							continue
						}
						igoals = append(igoals, implGoal{"post[" + lastSeg(key) + ".frame:" + fname + "]", vc.clauseProps(ct, &Clause{}), t})
					}
				}
			}
		}
	}
	vc.groupKey = fmt.Sprintf("%s#path%d", vc.key, vc.npaths)
	vc.groupPrefix = ""
	for _, g := range goals {
		vc.oblige(st, "post["+g.cl.Label+"]", g.t, vc.clauseProps(ct, g.cl), vc.posOf(pos))
	}
	for _, g := range igoals {
		vc.oblige(st, g.label, g.t, g.props, vc.posOf(pos))
	}
	vc.groupKey = ""
	if ct.ModSet && !ct.Trusted && os.Getenv("VERIF_NO_FRAME") == "" {
		vc.checkFrame(st, f, ct, pos)
	}
}

// stripFreshStores removes, from the outside in, the stores of a heap term that write at references allocated
// during the call (named heap definitions are unfolded on the way).
func (vc *VC) stripFreshStores(h string) string {
	for k := 0; k < 4096; k++ {
		if body, ok := vc.defs[h]; ok {
			h = body
			continue
		}
		a, ok := ctorArgs(h, "store")
		if !ok || len(a) != 3 || !isAllocRef(a[1]) {
			return h
		}
		h = a[0]
	}
	return h
}

// checkFrame: the modifies clause of the function under contract is checked on its body. Callers assume that a call
// leaves everything outside the callee's modifies clause as it was; here the state at each return is compared,
// heap by heap, with the entry state in which exactly the modifies targets have been overwritten by the values the
// return state holds there. Objects allocated during the call are the callee's own.
func (vc *VC) checkFrame(fin *State, f *Frame, ct *Contract, pos token.Pos) {
	e := vc.entry
	s := fin.clone() // keeps the path condition (and the definitions it holds)
	s.heaps = make(map[string]*Term, len(e.heaps))
	for k, v := range e.heaps {
		s.heaps[k] = v
	}
	s.ghosts = make(map[string]*Term, len(e.ghosts))
	for k, v := range e.ghosts {
		s.ghosts[k] = v
	}
	s.clock, s.alloc, s.epoch, s.epochAlloc = e.clock, e.alloc, e.epoch, e.epochAlloc
	env := vc.envFor(e, f)
	env.old = e
	vc.witness = fin
	nerr := len(vc.eng.specErrors)
	for _, m := range ct.Modifies {
		vc.havocLocation(env, s, m, ct)
	}
	vc.witness = nil
	if len(vc.eng.specErrors) != nerr {
		return
	}
	skip := func(name string) bool {
		for _, p := range []string{"B_", "KV", "BUFSTR", "CTX", "spawn", "call_"} {
			if strings.HasPrefix(name, p) {
				return true
			}
		}
		return false
	}
	names := map[string]bool{}
	for k := range fin.heaps {
		names[k] = true
	}
	for k := range s.heaps {
		names[k] = true
	}
	var sorted []string
	for k := range names {
		if !skip(k) {
			sorted = append(sorted, k)
		}
	}
	sort.Strings(sorted)
	// all goals are built first (building them declares constants), then emitted as one group: tried as a single
	// conjunction and only split when that fails
	type fgoal struct {
		name string
		t    *Term
	}
	var goals []fgoal
	for _, name := range sorted {
		var srt *Sort
		if t, ok := fin.heaps[name]; ok {
			srt = t.Sort
		} else {
			srt = s.heaps[name].Sort
		}
		fh, sh := vc.heap(fin, name, srt), vc.heap(s, name, srt)
		if fh.S == sh.S {
			continue
		}
		// writes to objects allocated during the call are the function's own: peel them off before comparing
		if srt.Kind == KArray && srt.Key == sortInt && vc.stripFreshStores(fh.S) == vc.stripFreshStores(sh.S) {
			continue
		}
		if eh, ok := e.heaps[name]; ok && eh.S != sh.S {
			// the modifies clause names a location in this heap: the comparison stops at heap granularity
			// ("writes only heaps its modifies clause mentions"). Comparing location by location needs loop havocs
			// that frame every write (a map reached through a field is still havocked as a whole): not claimed.
			continue
		} else if !ok {
			if _, touched := s.heaps[name]; touched && sh.S != name+"_0" {
				continue
			}
		}
		if srt.Kind != KArray {
			goals = append(goals, fgoal{name, Eq(fh, sh)})
			continue
		}
		q := fmt.Sprintf("fr%d", vc.nfresh)
		vc.nfresh++
		guard := "true"
		if srt.Key == sortInt {
			guard = fmt.Sprintf("(<= %s %s)", q, e.alloc.S)
		}
		goals = append(goals, fgoal{name, T(sortBool, fmt.Sprintf("(forall ((%s %s)) (=> %s (= (select %s %s) (select %s %s))))", q, srt.Key.Name, guard, fh.S, q, sh.S, q))})
	}
	gn := map[string]bool{}
	for k := range fin.ghosts {
		gn[k] = true
	}
	for k := range s.ghosts {
		gn[k] = true
	}
	var gsorted []string
	for k := range gn {
		if !skip(k) {
			gsorted = append(gsorted, k)
		}
	}
	sort.Strings(gsorted)
	for _, name := range gsorted {
		g, ok := vc.eng.db.Ghosts[name]
		if !ok {
			continue
		}
		fg, sg := vc.ghostVar(fin, g), vc.ghostVar(s, g)
		if fg.S == sg.S {
			continue
		}
		goals = append(goals, fgoal{name, Eq(fg, sg)})
	}
	if fin.clock.S != s.clock.S {
		goals = append(goals, fgoal{"clock", Eq(fin.clock, s.clock)})
	}
	vc.groupKey = fmt.Sprintf("%s#frame%d", vc.key, vc.npaths)
	vc.groupPrefix = ""
	for _, g := range goals {
		vc.oblige(s, "frame["+g.name+"]", g.t, vc.clauseProps(ct, &Clause{}), vc.posOf(pos))
	}
	vc.groupKey = ""
}

// implEnv binds the names of an interface contract to the implementation's receiver,
// parameters and results (by position).
func (vc *VC) implEnv(st *State, f *Frame, ict *Contract, res []Value) *Env {
	fn := f.fn
	if fn.Signature.Recv() == nil || len(fn.Params) == 0 {
		vc.eng.specError(fmt.Sprintf("%s: implements on a non-method", fn))
		return nil
	}
	env := &Env{vc: vc, st: st, vars: map[string]SV{}, nq: &vc.nq}
	this := SV{V: vc.term(st, f.regs[fn.Params[0]], "this"), T: fn.Params[0].Type()}
	env.this = &this
	env.vars["this"] = this
	for i, p := range fn.Params[1:] {
		name := p.Name()
		if i < len(ict.Params) {
			name = ict.Params[i]
		}
		env.vars[name] = SV{V: vc.term(st, f.regs[p], name), T: p.Type()}
	}
	if res != nil {
		names := resultNames(ict, fn.Signature)
		for i, r := range res {
			env.vars[names[i]] = SV{V: vc.term(st, r, names[i]), T: fn.Signature.Results().At(i).Type()}
		}
	}
	// names in the interface contract resolve in the interface's package
	tgt := ict.Target // e.g. store.BalanceStore.GetNodeBalance
	if i := strings.Index(tgt, "."); i > 0 {
		if p := env.findPkg(tgt[:i]); p != nil {
			env.pkg = p
		}
	}
	if env.pkg == nil && fn.Pkg != nil {
		env.pkg = fn.Pkg.Pkg
	}
	return env
}

// ---------------------------------------------------------------------------
// channels (minimal): receive yields an arbitrary value, send is an event

func (vc *VC) doRecv(st *State, f *Frame, x *ssa.UnOp) Value {
	ch := vc.tv(st, f, x.X)
	et := x.X.Type().Underlying().(*types.Chan).Elem()
	v := vc.freshValue(st, et, "recv")
	vc.chanInvAssume(st, f, x.X, ch, v)
	st.lastRecv = ch
	if x.CommaOk {
		return Tuple{v, vc.fresh("recvok", sortBool)}
	}
	return v
}

func (vc *VC) doSend(st *State, f *Frame, x *ssa.Send) {
	ch := vc.tv(st, f, x.Chan)
	v := vc.value(st, f, x.X)
	vc.chanInvCheck(st, f, x.Chan, ch, v, x.Pos())
	st.events = append(st.events, Event{Kind: "send", Args: []Value{ch, v}})
}

func (vc *VC) doSelect(st *State, f *Frame, x *ssa.Select) []*State {
	// result tuple: (index int, recvOk bool, r_0 T_0, ... r_n-1 T_n-1) for receive states
	var forks []*State
	build := func(s *State, idx int) {
		fr := s.top()
		tup := Tuple{IntLit(int64(idx)), tTrue}
		for i, sc := range x.States {
			if sc.Dir == types.RecvOnly {
				et := sc.Chan.Type().Underlying().(*types.Chan).Elem()
				var v Value
				if i == idx {
					v = vc.freshValue(s, et, "selrecv")
					cht := vc.tv(s, fr, sc.Chan)
					if strings.HasPrefix(cht.S, "(ctxdonech ") {
						// a Done channel only ever delivers by being closed
						vc.declareFun("chclosed", []*Sort{sortInt}, sortBool)
						s.assume(App(sortBool, "chclosed", cht))
					}
					vc.chanInvAssume(s, fr, sc.Chan, cht, v)
					s.lastRecv = cht
				} else {
					v = vc.eng.st.Zero(vc.eng.st.SortOf(et))
				}
				tup = append(tup, v)
			}
		}
		if idx >= 0 && x.States[idx].Dir == types.SendOnly {
			sc := x.States[idx]
			vc.chanInvCheck(s, fr, sc.Chan, vc.tv(s, fr, sc.Chan), vc.value(s, fr, sc.Send), x.Pos())
			s.events = append(s.events, Event{Kind: "send", Args: []Value{vc.tv(s, fr, sc.Chan), vc.value(s, fr, sc.Send)}})
		}
		fr.regs[x] = tup
		fr.idx++
	}
	n := len(x.States)
	choices := []int{}
	for i := 0; i < n; i++ {
		choices = append(choices, i)
	}
	if !x.Blocking {
		choices = append(choices, -1)
	}
	for k, idx := range choices {
		if k == len(choices)-1 {
			build(st, idx)
		} else {
			o := st.clone()
			build(o, idx)
			forks = append(forks, o)
		}
	}
	return forks
}

// chanVarName: the source-level name of the variable a channel value was read from.
func (vc *VC) chanVarName(f *Frame, v ssa.Value) string {
	switch x := v.(type) {
	case *ssa.UnOp:
		if x.Op == token.MUL {
			switch a := x.X.(type) {
			case *ssa.FreeVar:
				return a.Name()
			case *ssa.Alloc:
				return a.Comment
			}
		}
	case *ssa.Parameter:
		return x.Name()
	case *ssa.FreeVar:
		return x.Name()
	}
	for name, refs := range vc.eng.debugRefs(f.fn) {
		for _, d := range refs {
			if d.X == v && !d.IsAddr {
				return name
			}
		}
	}
	return ""
}

// chanInvAssume: recvinv clauses of the function under contract (top frame only).
func (vc *VC) chanInvAssume(st *State, f *Frame, chv ssa.Value, ch *Term, v Value) {
	if vc.contract == nil || len(st.frames) != 1 || len(vc.contract.RecvInvs) == 0 {
		return
	}
	name := vc.chanVarName(f, chv)
	for _, ri := range vc.contract.RecvInvs {
		if ri.Pattern != name {
			continue
		}
		env := vc.envFor(st, f)
		env.old = vc.entry
		env.frame = f
		et := chv.Type().Underlying().(*types.Chan).Elem()
		env.bind("v", SV{V: vc.term(st, v, "recv"), T: et})
		t, err := env.EvalBool(ri.Clause.E)
		if err != nil {
			vc.eng.specError(fmt.Sprintf("%s: recvinv %s: %v", vc.contract.Target, ri.Pattern, err))
			continue
		}
		st.assume(t)
		vc.note("values received from channel %s of %s satisfy its recvinv clause (an assumption about the senders, checked on their side by sendreq)", name, vc.fn.Name())
	}
}

// chanInvCheck: sendreq clauses of the function under contract (top frame only).
func (vc *VC) chanInvCheck(st *State, f *Frame, chv ssa.Value, ch *Term, v Value, p token.Pos) {
	if vc.contract == nil || len(st.frames) != 1 || len(vc.contract.SendReqs) == 0 {
		return
	}
	name := vc.chanVarName(f, chv)
	for _, sr := range vc.contract.SendReqs {
		if sr.Pattern != name && sr.Pattern != "*" { // "*": every send the function makes, whatever the channel
			continue
		}
		env := vc.envFor(st, f)
		env.old = vc.entry
		env.frame = f
		et := chv.Type().Underlying().(*types.Chan).Elem()
		env.bind("sent", SV{V: vc.term(st, v, "sent"), T: et})
		env.bind("ch", SV{V: ch, T: chv.Type()})
		t, err := env.EvalBool(sr.Clause.E)
		if err != nil {
			vc.unprovable("sendreq["+sr.Clause.Label+"]@"+vc.site(), vc.clauseProps(vc.contract, sr.Clause), vc.posOf(p), err)
			continue
		}
		vc.oblige(st, "sendreq["+sr.Clause.Label+"]@"+vc.site(), t, vc.clauseProps(vc.contract, sr.Clause), vc.posOf(p))
	}
}

// ---------------------------------------------------------------------------
// guarded_by

func (vc *VC) guardedField(t types.Type, field string) (string, bool) {
	n, ok := types.Unalias(t).(*types.Named)
	if !ok {
		return "", false
	}
	for _, g := range vc.eng.db.Guarded {
		if g.Type == n.Obj().Name() && g.Field == field && n.Obj().Pkg() != nil && n.Obj().Pkg().Path() == g.Pkg {
			return g.Mutex, true
		}
	}
	return "", false
}

// guardCheck: a load/store through &x.f where f is guarded needs the mutex held.
func (vc *VC) guardCheck(st *State, f *Frame, addr ssa.Value, pos token.Pos) {
	if !vc.lockCheck {
		return
	}
	fa, ok := addr.(*ssa.FieldAddr)
	if !ok {
		return
	}
	if _, fresh := rootOf(fa.X).(*ssa.Alloc); fresh {
		return // an object allocated by this function and not yet shared (constructors)
	}
	pt := fa.X.Type().Underlying().(*types.Pointer).Elem()
	stt, ok := pt.Underlying().(*types.Struct)
	if !ok {
		return
	}
	fname := stt.Field(fa.Field).Name()
	mu, guarded := vc.guardedField(pt, fname)
	if !guarded {
		return
	}
	if mu == "<atomic>" {
		// a plain load or store of a field that must only be touched through sync/atomic
		vc.oblige(st, fmt.Sprintf("atomic-only@%s.%s@%s", types.Unalias(pt).(*types.Named).Obj().Name(), fname, vc.site()), tFalse, []string{"C10", "C14"}, vc.posOf(pos))
		return
	}
	for i := 0; i < stt.NumFields(); i++ {
		if stt.Field(i).Name() == mu {
			p := vc.asPtr(vc.value(st, f, fa.X), pt).withStep(PathStep{Field: i})
			held := vc.load(st, p)
			key := "lock@" + types.Unalias(pt).(*types.Named).Obj().Name() + "." + fname
			vc.oblige(st, fmt.Sprintf("%s@%s", key, vc.site()), held, []string{"C10"}, vc.posOf(pos))
			return
		}
	}
}

// guardCheckMap: map operations on a map loaded from a guarded field.
func (vc *VC) guardCheckMap(st *State, f *Frame, m ssa.Value, pos token.Pos) {
	if !vc.lockCheck {
		return
	}
	if u, ok := m.(*ssa.UnOp); ok && u.Op == token.MUL {
		if _, isField := u.X.(*ssa.FieldAddr); isField {
			vc.guardCheck(st, f, u.X, pos)
			return
		}
	}
	// the map is reached through a local: if it is one that was read out of a guarded field
	// earlier on this path, the owning mutex must (still) be held
	mt, ok := m.Type().Underlying().(*types.Map)
	if !ok || len(st.gmaps) == 0 {
		return
	}
	r := vc.tv(st, f, m)
	seen := map[string]bool{}
	for _, g := range st.gmaps {
		if !types.Identical(g.mt, mt) || seen[g.name+g.ref.S] {
			continue
		}
		seen[g.name+g.ref.S] = true
		held := vc.load(st, g.mu)
		vc.oblige(st, fmt.Sprintf("lock@%s(alias)@%s", g.name, vc.site()), Implies(Eq(r, g.ref), vc.term(st, held, "held")), []string{"C10"}, vc.posOf(pos))
	}
}

// noteGuardedMap records a map reference loaded from a mutex-guarded field.
func (vc *VC) noteGuardedMap(st *State, f *Frame, addr ssa.Value, v Value) {
	if !vc.lockCheck {
		return
	}
	fa, ok := addr.(*ssa.FieldAddr)
	if !ok {
		return
	}
	pt := fa.X.Type().Underlying().(*types.Pointer).Elem()
	stt, ok := pt.Underlying().(*types.Struct)
	if !ok {
		return
	}
	mt, ok := stt.Field(fa.Field).Type().Underlying().(*types.Map)
	if !ok {
		return
	}
	if _, fresh := rootOf(fa.X).(*ssa.Alloc); fresh {
		return
	}
	fname := stt.Field(fa.Field).Name()
	mu, guarded := vc.guardedField(pt, fname)
	if !guarded || mu == "<atomic>" {
		return
	}
	t, ok := v.(*Term)
	if !ok {
		return
	}
	for i := 0; i < stt.NumFields(); i++ {
		if stt.Field(i).Name() == mu {
			p := vc.asPtr(vc.value(st, f, fa.X), pt).withStep(PathStep{Field: i})
			st.gmaps = append(st.gmaps, guardedMap{ref: t, mu: p, mt: mt, name: types.Unalias(pt).(*types.Named).Obj().Name() + "." + fname})
			return
		}
	}
}

// ---------------------------------------------------------------------------
// summed-map measures (ghost sums over map values) -- see measure.go

// opaqueCall: the result is an uninterpreted function of the argument values.
func (vc *VC) opaqueCall(st *State, callee *ssa.Function, args []Value, byref bool) Value {
	var ts []*Term
	var sorts []*Sort
	for i, a := range args {
		var t *Term
		// pointers to structs are passed by the value they point to, unless the contract says
		// the pointees are immutable and identity is enough
		if !byref && i < len(callee.Params) {
			if pt, ok := callee.Params[i].Type().Underlying().(*types.Pointer); ok {
				if vc.eng.st.SortOf(pt.Elem()).Kind == KStruct {
					t = vc.load(st, vc.asPtr(a, pt.Elem()))
				}
			}
		}
		if t == nil {
			t = vc.term(st, a, "opaque")
		}
		ts = append(ts, t)
		sorts = append(sorts, t.Sort)
	}
	res := callee.Signature.Results()
	var out Tuple
	for i := 0; i < res.Len(); i++ {
		rs := vc.eng.st.SortOf(res.At(i).Type())
		name := ufName(callee, i)
		vc.declareFun(name, sorts, rs)
		out = append(out, App(rs, name, ts...))
	}
	switch len(out) {
	case 0:
		return nil
	case 1:
		return out[0]
	}
	return out
}

// checkCallReqs: caller-side requirements ("callreq") of the function under contract.
func (vc *VC) checkCallReqs(st *State, f *Frame, c *ssa.CallCommon, fnv Value, args []Value, pos string) {
	name := ""
	switch {
	case c.IsInvoke():
		name = ifaceMethodKey(c)
	default:
		if cl, ok := fnv.(*Closure); ok {
			name = cl.Fn.String()
		} else if k := funcFieldOf(c.Value); k != "" {
			name = k
		}
	}
	if name == "" {
		return
	}
	for _, cr := range vc.contract.CallReqs {
		if !strings.Contains(name, cr.Pattern) {
			continue
		}
		env := vc.envFor(st, f)
		env.old = vc.entry
		env.frame = f
		// arg0, arg1, ...: the arguments of the call (receiver excluded)
		sig := c.Signature()
		off := 0
		if c.IsInvoke() || (sig.Recv() != nil) {
			off = 1
			if len(args) > 0 {
				rt := c.Value.Type()
				if !c.IsInvoke() {
					rt = sig.Recv().Type()
				}
				env.bind("recv", SV{V: vc.term(st, args[0], "recv"), T: rt})
			}
		}
		for i := 0; i+off < len(args) && i < sig.Params().Len(); i++ {
			env.bind(fmt.Sprintf("arg%d", i), SV{V: vc.term(st, args[i+off], "arg"), T: sig.Params().At(i).Type()})
		}
		t, err := env.EvalBool(cr.Clause.E)
		if err != nil {
			vc.unprovable("callreq["+cr.Clause.Label+"]@"+vc.site(), vc.clauseProps(vc.contract, cr.Clause), pos, err)
			continue
		}
		vc.oblige(st, "callreq["+cr.Clause.Label+"]@"+vc.site(), t, vc.clauseProps(vc.contract, cr.Clause), pos)
	}
}

func ufName(callee *ssa.Function, i int) string {
	n := callee.String()
	n = strings.ReplaceAll(n, vipnodeMod+"/", "")
	return fmt.Sprintf("uf_%s_%d", smtName(n), i)
}

// externalErrors: an error returned by a dependency has a dependency-defined dynamic type, never one of vipnode's.
func (vc *VC) externalErrors(st *State, c *ssa.CallCommon, res Value) {
	sig := c.Signature()
	ext := IntLit(int64(vc.eng.tagOf(types.NewPointer(types.Typ[types.Invalid]))))
	mark := func(v Value, t types.Type) {
		if term, ok := v.(*Term); ok && isErrorType(t) {
			st.assume(Or(Eq(ifaceTag(term), IntLit(0)), Eq(ifaceTag(term), ext)))
			vc.note("errors returned by dependencies never have a vipnode-defined dynamic type")
		}
	}
	switch r := res.(type) {
	case Tuple:
		for i, v := range r {
			if i < sig.Results().Len() {
				mark(v, sig.Results().At(i).Type())
			}
		}
	default:
		if sig.Results().Len() == 1 {
			mark(res, sig.Results().At(0).Type())
		}
	}
}

// logCall appends to the ghost call log of an in-repo function that is called through its contract:
// callcount("f") calls of f were made so far by the function under verification, callarg("f", j)[k]
// is argument j (receiver first) of the k-th of them.
func (vc *VC) logCall(st *State, callee *ssa.Function, args []Value) {
	vc.logCallNamed(st, callee.Name(), args)
}

func (vc *VC) logCallNamed(st *State, name string, args []Value) {
	cn := "call_" + name + "_n"
	cnt, ok := st.ghosts[cn]
	if !ok {
		cnt = IntLit(0)
	}
	for j, a := range args {
		at := vc.term(st, a, "callarg")
		an := fmt.Sprintf("call_%s_a%d", name, j)
		arr, ok := st.ghosts[an]
		if !ok {
			arr = vc.eng.st.Zero(vc.eng.st.ArrayOf(sortInt, at.Sort))
		}
		st.ghosts[an] = Store(arr, cnt, at)
	}
	st.ghosts[cn] = Bin(sortInt, "+", cnt, IntLit(1))
}

// loggedCallee finds what fn calls under the given name (an in-repo function called directly, or a
// function-valued struct field) and returns the types of the logged arguments (receiver first).
func loggedCallee(fn *ssa.Function, name string) ([]types.Type, bool) {
	for _, b := range fn.Blocks {
		for _, ins := range b.Instrs {
			cc, ok := ins.(ssa.CallInstruction)
			if !ok {
				continue
			}
			if callee := cc.Common().StaticCallee(); callee != nil && callee.Name() == name {
				var ts []types.Type
				for _, p := range callee.Params {
					ts = append(ts, p.Type())
				}
				return ts, true
			}
			if cm := cc.Common(); cm.IsInvoke() && cm.Method.Name() == name {
				ts := []types.Type{cm.Value.Type()}
				sig := cm.Signature()
				for i := 0; i < sig.Params().Len(); i++ {
					ts = append(ts, sig.Params().At(i).Type())
				}
				return ts, true
			}
			if key := funcFieldOf(cc.Common().Value); key != "" && strings.HasSuffix(key, "."+name) {
				var ts []types.Type
				sig := cc.Common().Signature()
				for i := 0; i < sig.Params().Len(); i++ {
					ts = append(ts, sig.Params().At(i).Type())
				}
				return ts, true
			}
		}
	}
	return nil, false
}

// localOnlyClause: postconditions phrased over the ghost logs of the function's own go statements
// and calls are checked on the body but cannot be used at call sites.
func localOnlyClause(cl *Clause) bool {
	for _, w := range []string{"spawncount(", "spawnarg(", "callcount(", "callarg(", "final(", "sent("} {
		if strings.Contains(cl.Src, w) {
			return true
		}
	}
	return false
}
