package main

import (
	"go/types"

	"golang.org/x/tools/go/ssa"
)

// Hard-coded models ("assumed contracts") of standard-library functions. Each one that is
// actually used by a run is listed in the evidence file (vc.used).

type handler func(vc *VC, st *State, c *ssa.CallCommon, args []Value, pos string) Value

var handlers map[string]handler
var ifaceHandlers map[string]handler

// handlerMods: which argument positions (in c.Args order) a model writes through.
var handlerMods = map[string][]int{
	"(*math/big.Int).Add": {0}, "(*math/big.Int).Sub": {0}, "(*math/big.Int).Mul": {0}, "(*math/big.Int).Neg": {0},
	"(*math/big.Int).Set": {0}, "(*math/big.Int).Div": {0}, "(*math/big.Int).Quo": {0}, "(*math/big.Int).SetInt64": {0}, "(*math/big.Int).Abs": {0},
	"(*sync.Mutex).Lock": {0}, "(*sync.Mutex).Unlock": {0}, "(*sync.RWMutex).Lock": {0}, "(*sync.RWMutex).Unlock": {0},
	"(*sync.RWMutex).RLock": {0}, "(*sync.RWMutex).RUnlock": {0},
}

func bigPtr(vc *VC, v Value) *Ptr {
	switch x := v.(type) {
	case *Ptr:
		if x.Nil {
			return &Ptr{Root: RObj, Base: IntLit(0), Sort: sortBig}
		}
		return x
	case *Term:
		return &Ptr{Root: RObj, Base: x, Sort: sortBig}
	}
	panic("bigPtr")
}

func bigBinary(op string) handler {
	return func(vc *VC, st *State, c *ssa.CallCommon, args []Value, pos string) Value {
		z, x, y := bigPtr(vc, args[0]), bigPtr(vc, args[1]), bigPtr(vc, args[2])
		vc.nilSafety(st, z, pos)
		vc.nilSafety(st, x, pos)
		vc.nilSafety(st, y, pos)
		xv, yv := bigVal(vc.load(st, x)), bigVal(vc.load(st, y))
		var r *Term
		switch op {
		case "div":
			vc.safetyCheck(st, "div0", Not(Eq(yv, IntLit(0))), 0)
			r = Bin(sortInt, "div", xv, yv) // Euclidean, as big.Int.Div
		case "quo":
			vc.safetyCheck(st, "div0", Not(Eq(yv, IntLit(0))), 0)
			r = Bin(sortInt, "go.div", xv, yv)
		default:
			r = Bin(sortInt, op, xv, yv)
		}
		vc.bigWrite(st, z, r)
		return args[0]
	}
}

func bigUnary(f func(x *Term) *Term) handler {
	return func(vc *VC, st *State, c *ssa.CallCommon, args []Value, pos string) Value {
		z, x := bigPtr(vc, args[0]), bigPtr(vc, args[1])
		vc.nilSafety(st, z, pos)
		vc.nilSafety(st, x, pos)
		vc.bigWrite(st, z, f(bigVal(vc.load(st, x))))
		return args[0]
	}
}

func (vc *VC) nilSafety(st *State, p *Ptr, pos string) {
	if p.Root == RObj {
		vc.safetyCheck(st, "nil", Not(Eq(p.Base, IntLit(0))), 0)
	}
}

// bigWrite stores a new value into *z. The digit buffer is either z's old buffer (updated in
// place) or a fresh one; a zero Int has no buffer (0) and always gets a fresh one.
func (vc *VC) bigWrite(st *State, z *Ptr, val *Term) {
	old := vc.load(st, z)
	reuse := vc.fresh("reuse", sortBool)
	nb := vc.newRef(st, "buf")
	buf := Ite(And(reuse, Not(Eq(bigBuf(old), IntLit(0)))), bigBuf(old), nb)
	vc.store(st, z, mkBig(val, buf))
}

func noop(vc *VC, st *State, c *ssa.CallCommon, args []Value, pos string) Value {
	return vc.havocResults(st, c, "r")
}

func (vc *VC) freshError(st *State, hint string) *Term {
	r := vc.newRef(st, hint)
	tag := IntLit(int64(vc.eng.tagOf(types.NewPointer(types.Typ[types.Invalid]))))
	return mkIface(tag, r)
}

func mutexPtr(vc *VC, v Value) *Ptr {
	switch x := v.(type) {
	case *Ptr:
		return x
	case *Term:
		return &Ptr{Root: RObj, Base: x, Sort: sortBool}
	}
	panic("mutexPtr")
}

func lockHandler(lock bool) handler {
	return func(vc *VC, st *State, c *ssa.CallCommon, args []Value, pos string) Value {
		p := mutexPtr(vc, args[0])
		held := vc.load(st, p)
		if lock {
			if vc.lockCheck {
				vc.oblige(st, "relock@"+vc.site(), Not(held), []string{"C10"}, pos)
			}
			st.assume(Not(held))
			vc.store(st, p, tTrue)
			st.events = append(st.events, Event{Kind: "lock"})
		} else {
			if vc.lockCheck {
				vc.oblige(st, "unlock-held@"+vc.site(), held, []string{"C10"}, pos)
			}
			vc.store(st, p, tFalse)
			st.events = append(st.events, Event{Kind: "unlock"})
		}
		return nil
	}
}

func itoa(n int) string { return IntLit(int64(n)).S }

func init() {
	handlers = map[string]handler{
		// ---- math/big
		"math/big.NewInt": func(vc *VC, st *State, c *ssa.CallCommon, args []Value, pos string) Value {
			r := vc.newRef(st, "big")
			b := vc.newRef(st, "buf")
			n, h := vc.objHeap(st, sortBig)
			vc.setHeap(st, n, Store(h, r, mkBig(vc.term(st, args[0], "NewInt"), b)))
			return r
		},
		"(*math/big.Int).Add": bigBinary("+"),
		"(*math/big.Int).Sub": bigBinary("-"),
		"(*math/big.Int).Mul": bigBinary("*"),
		"(*math/big.Int).Div": bigBinary("div"),
		"(*math/big.Int).Quo": bigBinary("quo"),
		"(*math/big.Int).Neg": bigUnary(func(x *Term) *Term { return T(sortInt, "(- "+x.S+")") }),
		"(*math/big.Int).Set": bigUnary(func(x *Term) *Term { return x }),
		"(*math/big.Int).Abs": bigUnary(func(x *Term) *Term { return Ite(Bin(sortBool, ">=", x, IntLit(0)), x, T(sortInt, "(- "+x.S+")")) }),
		"(*math/big.Int).SetInt64": func(vc *VC, st *State, c *ssa.CallCommon, args []Value, pos string) Value {
			vc.bigWrite(st, bigPtr(vc, args[0]), vc.term(st, args[1], "SetInt64"))
			return args[0]
		},
		"(*math/big.Int).Cmp": func(vc *VC, st *State, c *ssa.CallCommon, args []Value, pos string) Value {
			x, y := bigPtr(vc, args[0]), bigPtr(vc, args[1])
			vc.nilSafety(st, x, pos)
			vc.nilSafety(st, y, pos)
			xv, yv := bigVal(vc.load(st, x)), bigVal(vc.load(st, y))
			return Ite(Bin(sortBool, "<", xv, yv), IntLit(-1), Ite(Eq(xv, yv), IntLit(0), IntLit(1)))
		},
		"(*math/big.Int).Sign": func(vc *VC, st *State, c *ssa.CallCommon, args []Value, pos string) Value {
			x := bigPtr(vc, args[0])
			vc.nilSafety(st, x, pos)
			xv := bigVal(vc.load(st, x))
			return Ite(Bin(sortBool, "<", xv, IntLit(0)), IntLit(-1), Ite(Eq(xv, IntLit(0)), IntLit(0), IntLit(1)))
		},
		"(*math/big.Int).String": noop,
		// ---- time
		"time.Now": func(vc *VC, st *State, c *ssa.CallCommon, args []Value, pos string) Value {
			return vc.readClock(st)
		},
		"(time.Time).Sub": func(vc *VC, st *State, c *ssa.CallCommon, args []Value, pos string) Value {
			vc.note("time.Time.Sub does not saturate (durations are mathematical integers)")
			return Bin(sortInt, "-", vc.term(st, args[0], "t"), vc.term(st, args[1], "u"))
		},
		"(time.Time).Add": func(vc *VC, st *State, c *ssa.CallCommon, args []Value, pos string) Value {
			return Bin(sortInt, "+", vc.term(st, args[0], "t"), vc.term(st, args[1], "d"))
		},
		"(time.Time).After": func(vc *VC, st *State, c *ssa.CallCommon, args []Value, pos string) Value {
			return Bin(sortBool, ">", vc.term(st, args[0], "t"), vc.term(st, args[1], "u"))
		},
		"(time.Time).Before": func(vc *VC, st *State, c *ssa.CallCommon, args []Value, pos string) Value {
			return Bin(sortBool, "<", vc.term(st, args[0], "t"), vc.term(st, args[1], "u"))
		},
		"(time.Time).Equal": func(vc *VC, st *State, c *ssa.CallCommon, args []Value, pos string) Value {
			return Eq(vc.term(st, args[0], "t"), vc.term(st, args[1], "u"))
		},
		"(time.Time).IsZero": func(vc *VC, st *State, c *ssa.CallCommon, args []Value, pos string) Value {
			return Eq(vc.term(st, args[0], "t"), IntLit(0))
		},
		"(time.Time).UnixNano": func(vc *VC, st *State, c *ssa.CallCommon, args []Value, pos string) Value {
			vc.note("time.Time is an integer number of nanoseconds; UnixNano is the identity")
			return vc.term(st, args[0], "t")
		},
		"time.Since": func(vc *VC, st *State, c *ssa.CallCommon, args []Value, pos string) Value {
			return Bin(sortInt, "-", vc.readClock(st), vc.term(st, args[0], "t"))
		},
		"(time.Duration).String": noop,
		// ---- sync
		"(*sync.Mutex).Lock":      lockHandler(true),
		"(*sync.Mutex).Unlock":    lockHandler(false),
		"(*sync.RWMutex).Lock":    lockHandler(true),
		"(*sync.RWMutex).Unlock":  lockHandler(false),
		"(*sync.RWMutex).RLock":   lockHandler(true),
		"(*sync.RWMutex).RUnlock": lockHandler(false),
		// ---- errors / fmt / log
		"errors.New": func(vc *VC, st *State, c *ssa.CallCommon, args []Value, pos string) Value {
			return vc.freshError(st, "err")
		},
		"fmt.Errorf": func(vc *VC, st *State, c *ssa.CallCommon, args []Value, pos string) Value {
			return vc.freshError(st, "err")
		},
		"fmt.Sprintf": func(vc *VC, st *State, c *ssa.CallCommon, args []Value, pos string) Value {
			return vc.sprintf(st, c, args)
		},
		"(*log.Logger).Printf":                                 noop,
		"(*log.Logger).Println":                                noop,
		"(*log.Logger).Print":                                  noop,
		"github.com/vipnode/vipnode/v2/internal/pretty.Abbrev": noop,
		// ---- encoding/json streams (C17): see /verif/assumed/stdlib.spec for the ghost fields
		"encoding/json.NewDecoder": func(vc *VC, st *State, c *ssa.CallCommon, args []Value, pos string) Value {
			r := vc.term(st, args[0], "reader")
			d := vc.newRef(st, "decoder")
			vc.gfSet(st, "dsrc", d, ifaceVal(r))
			vc.gfSet(st, "dstart", d, vc.gfGet(st, "rpos", ifaceVal(r)))
			vc.gfSet(st, "dcons", d, IntLit(0))
			vc.gfSet(st, "dcount", d, IntLit(0))
			vc.note("json.Decoder is modelled by stream offsets: it may read any number of bytes ahead of the value it returns and keeps them in its own buffer")
			return d
		},
		"bytes.NewReader": func(vc *VC, st *State, c *ssa.CallCommon, args []Value, pos string) Value {
			b := vc.term(st, args[0], "bytes")
			r := vc.newRef(st, "reader")
			_, h := vc.arrHeap(st, sortInt)
			content := App(sortStr, "bytes2str", Select(h, sliceArr(b), vc.eng.st.ArrayOf(sortInt, sortInt)), sliceOff(b), sliceLen(b))
			rc := vc.heap(st, "GF_rcontent", vc.eng.st.ArrayOf(sortInt, sortStr))
			vc.setHeap(st, "GF_rcontent", Store(rc, r, content))
			vc.gfSet(st, "rpos", r, IntLit(0))
			return r
		},
		// More(): inside a JSON array, whether another element follows. jsonelems(content) is the (uninterpreted)
		// number of top-level array elements of the text the decoder reads; dcount counts the elements decoded so far.
		"(*encoding/json.Decoder).More": func(vc *VC, st *State, c *ssa.CallCommon, args []Value, pos string) Value {
			d := vc.term(st, args[0], "decoder")
			src := vc.gfGet(st, "dsrc", d)
			rc := vc.heap(st, "GF_rcontent", vc.eng.st.ArrayOf(sortInt, sortStr))
			vc.declareFun("gf_jsonelems", []*Sort{sortStr}, sortInt)
			n := App(sortInt, "gf_jsonelems", Select(rc, src, sortStr))
			st.assume(Bin(sortBool, ">=", n, IntLit(0)))
			return Bin(sortBool, "<", vc.gfGet(st, "dcount", d), n)
		},
		"(*encoding/json.Decoder).Token": func(vc *VC, st *State, c *ssa.CallCommon, args []Value, pos string) Value {
			return vc.havocResults(st, c, "token")
		},
		"(*encoding/json.Decoder).Decode": func(vc *VC, st *State, c *ssa.CallCommon, args []Value, pos string) Value {
			d := vc.term(st, args[0], "decoder")
			vc.safetyCheck(st, "nil", Not(Eq(d, IntLit(0))), 0)
			src := vc.gfGet(st, "dsrc", d)
			start := Bin(sortInt, "+", vc.gfGet(st, "dstart", d), vc.gfGet(st, "dcons", d))
			// library invariant: a decoder never turned more bytes into values than it read
			st.assume(Bin(sortBool, "<=", start, vc.gfGet(st, "rpos", src)))
			k := vc.fresh("readmore", sortInt)
			st.assume(Bin(sortBool, ">=", k, IntLit(0)))
			vc.gfSet(st, "rpos", src, Bin(sortInt, "+", vc.gfGet(st, "rpos", src), k))
			err := vc.freshValue(st, types.Universe.Lookup("error").Type(), "decerr").(*Term)
			ln := vc.fresh("vallen", sortInt)
			st.assume(Bin(sortBool, ">", ln, IntLit(0)))
			ok := Eq(ifaceTag(err), IntLit(0))
			st.assume(Implies(ok, Bin(sortBool, "<=", Bin(sortInt, "+", start, ln), vc.gfGet(st, "rpos", src))))
			vc.gfSet(st, "dcons", d, Ite(ok, Bin(sortInt, "+", vc.gfGet(st, "dcons", d), ln), vc.gfGet(st, "dcons", d)))
			vc.gfSet(st, "dcount", d, Ite(ok, Bin(sortInt, "+", vc.gfGet(st, "dcount", d), IntLit(1)), vc.gfGet(st, "dcount", d)))
			// the target object is overwritten with an arbitrary value of its type, and tagged with where it came from
			v := vc.term(st, args[1], "target")
			target := ifaceVal(v)
			if mi, isMI := c.Args[1].(*ssa.MakeInterface); isMI {
				if pt, isPtr := mi.X.Type().Underlying().(*types.Pointer); isPtr {
					p := vc.asPtr(target, pt.Elem())
					fv := vc.fresh("decoded", vc.targetSort(p))
					vc.typeFacts(st, fv, pt.Elem())
					vc.store(st, p, fv)
				}
			}
			vc.gfSet(st, "msgstart", target, start)
			vc.gfSet(st, "msglen", target, ln)
			return err
		},
		// ---- sort: the elements of the slice are permuted in place
		"sort.Sort": func(vc *VC, st *State, c *ssa.CallCommon, args []Value, pos string) Value {
			mi, ok := c.Args[0].(*ssa.MakeInterface)
			if !ok {
				refuse("sort.Sort on a value of unknown dynamic type")
			}
			sl, ok := mi.X.Type().Underlying().(*types.Slice)
			if !ok {
				refuse("sort.Sort on a non-slice (%s)", mi.X.Type())
			}
			T := vc.eng.st
			es := T.SortOf(sl.Elem())
			as := T.ArrayOf(sortInt, es)
			s := vc.unbox(st, vc.term(st, args[0], "sort"), mi.X.Type(), sortSlice)
			n, h := vc.arrHeap(st, es)
			oldArr := Select(h, sliceArr(s), as)
			newArr := vc.fresh("sorted", as)
			lo := sliceOff(s)
			hi := Bin(sortInt, "+", sliceOff(s), sliceLen(s))
			q := "sp" + itoa(vc.nfresh)
			r := "sq" + itoa(vc.nfresh)
			vc.nfresh++
			// every element after sorting is one of the elements before (and vice versa); outside the slice nothing changes
			st.assume(T_(sortBool, "(forall (("+q+" Int)) (! (=> (and (<= "+lo.S+" "+q+") (< "+q+" "+hi.S+")) (exists (("+r+" Int)) (and (<= "+lo.S+" "+r+") (< "+r+" "+hi.S+") (= (select "+newArr.S+" "+q+") (select "+oldArr.S+" "+r+"))))) :pattern ((select "+newArr.S+" "+q+"))))"))
			st.assume(T_(sortBool, "(forall (("+q+" Int)) (! (=> (and (<= "+lo.S+" "+q+") (< "+q+" "+hi.S+")) (exists (("+r+" Int)) (and (<= "+lo.S+" "+r+") (< "+r+" "+hi.S+") (= (select "+oldArr.S+" "+q+") (select "+newArr.S+" "+r+"))))) :pattern ((select "+patArr(oldArr, newArr).S+" "+q+"))))"))
			st.assume(T_(sortBool, "(forall (("+q+" Int)) (! (=> (or (< "+q+" "+lo.S+") (>= "+q+" "+hi.S+")) (= (select "+newArr.S+" "+q+") (select "+oldArr.S+" "+q+"))) :pattern ((select "+newArr.S+" "+q+"))))"))
			vc.setHeap(st, n, Store(vc.heap(st, n, h.Sort), sliceArr(s), newArr))
			vc.note("sort.Sort permutes the slice in place (ordering itself is not modelled)")
			return nil
		},
		// ---- strings
		"strings.HasPrefix": func(vc *VC, st *State, c *ssa.CallCommon, args []Value, pos string) Value {
			s, p := vc.term(st, args[0], "s"), vc.term(st, args[1], "p")
			r := App(sortBool, "strprefix", p, s)
			st.assume(Implies(r, Bin(sortBool, "<=", App(sortInt, "strlen", p), App(sortInt, "strlen", s))))
			return r
		},
		"strings.ToLower": func(vc *VC, st *State, c *ssa.CallCommon, args []Value, pos string) Value {
			s := vc.term(st, args[0], "s")
			r := App(sortStr, "strlower", s)
			st.assume(Eq(App(sortInt, "strlen", r), App(sortInt, "strlen", s)))
			return r
		},
		// ---- context
		"context.Background": func(vc *VC, st *State, c *ssa.CallCommon, args []Value, pos string) Value {
			vc.declare("ctx_background", sortIface)
			vc.axiom("(not (= (itag ctx_background) 0))")
			vc.ctxDecl()
			vc.axiom("(forall ((k Iface)) (! (= (itag (ctxval ctx_background k)) 0) :pattern ((ctxval ctx_background k))))")
			return T(sortIface, "ctx_background")
		},
		"context.WithTimeout": func(vc *VC, st *State, c *ssa.CallCommon, args []Value, pos string) Value {
			return Tuple{vc.childCtx(st, vc.term(st, args[0], "ctx")), vc.fresh("cancel", sortInt)}
		},
		"context.WithCancel": func(vc *VC, st *State, c *ssa.CallCommon, args []Value, pos string) Value {
			return Tuple{vc.childCtx(st, vc.term(st, args[0], "ctx")), vc.fresh("cancel", sortInt)}
		},
		"context.WithValue": func(vc *VC, st *State, c *ssa.CallCommon, args []Value, pos string) Value {
			parent, k, v := vc.term(st, args[0], "ctx"), vc.term(st, args[1], "key"), vc.term(st, args[2], "val")
			vc.ctxDecl()
			ctx := vc.fresh("ctx", sortIface)
			st.assume(Not(Eq(ifaceTag(ctx), IntLit(0))))
			st.assume(Eq(App(sortIface, "ctxval", ctx, k), v))
			q := "cq" + itoa(vc.nfresh)
			vc.nfresh++
			st.assume(T_(sortBool, "(forall (("+q+" Iface)) (! (=> (not (= "+q+" "+k.S+")) (= (ctxval "+ctx.S+" "+q+") (ctxval "+parent.S+" "+q+"))) :pattern ((ctxval "+ctx.S+" "+q+"))))"))
			return ctx
		},
	}
	ifaceHandlers = map[string]handler{
		"error.Error": func(vc *VC, st *State, c *ssa.CallCommon, args []Value, pos string) Value {
			return vc.fresh("errstr", sortStr)
		},
		"context.Context.Value": func(vc *VC, st *State, c *ssa.CallCommon, args []Value, pos string) Value {
			vc.ctxDecl()
			return App(sortIface, "ctxval", vc.term(st, args[0], "ctx"), vc.term(st, args[1], "key"))
		},
		"context.Context.Err": func(vc *VC, st *State, c *ssa.CallCommon, args []Value, pos string) Value {
			// non-nil once the Done channel has been seen closed
			ctx := vc.term(st, args[0], "ctx")
			vc.declareFun("ctxdonech", []*Sort{sortIface}, sortInt)
			vc.declareFun("chclosed", []*Sort{sortInt}, sortBool)
			e := vc.freshValue(st, types.Universe.Lookup("error").Type(), "ctxerr").(*Term)
			st.assume(Implies(App(sortBool, "chclosed", App(sortInt, "ctxdonech", ctx)), Not(Eq(ifaceTag(e), IntLit(0)))))
			return e
		},
		"context.Context.Done": func(vc *VC, st *State, c *ssa.CallCommon, args []Value, pos string) Value {
			vc.declareFun("ctxdonech", []*Sort{sortIface}, sortInt)
			return App(sortInt, "ctxdonech", vc.term(st, args[0], "ctx"))
		},
	}
}

func (vc *VC) ctxDecl() {
	vc.declareFun("ctxval", []*Sort{sortIface, sortIface}, sortIface)
}

func (vc *VC) childCtx(st *State, parent *Term) *Term {
	vc.ctxDecl()
	ctx := vc.fresh("ctx", sortIface)
	st.assume(Not(Eq(ifaceTag(ctx), IntLit(0))))
	q := "cq" + itoa(vc.nfresh)
	vc.nfresh++
	st.assume(T_(sortBool, "(forall (("+q+" Iface)) (! (= (ctxval "+ctx.S+" "+q+") (ctxval "+parent.S+" "+q+")) :pattern ((ctxval "+ctx.S+" "+q+"))))"))
	return ctx
}

// sprintf: the result is an arbitrary string, except for the key-space formats
// "<literal>%s" used by the badger driver, which are modelled as injective functions
// of their argument with disjoint ranges (checked syntactically: no literal prefix is a
// prefix of another one).
func (vc *VC) sprintf(st *State, c *ssa.CallCommon, args []Value) Value {
	if k, ok := c.Args[0].(*ssa.Const); ok && k.Value != nil {
		format := constantString(k)
		if len(format) > 2 && format[len(format)-2:] == "%s" && !containsPercent(format[:len(format)-2]) {
			if arg, ok := vc.singleVariadic(st, c, args); ok {
				return vc.keyFormat(st, format[:len(format)-2], arg)
			}
		}
	}
	return vc.fresh("sprintf", sortStr)
}

func containsPercent(s string) bool {
	for i := 0; i < len(s); i++ {
		if s[i] == '%' {
			return true
		}
	}
	return false
}

// gfGet / gfSet: ghost fields (declared in spec files) read and written by the models.
func (vc *VC) gfHeap(st *State, name string) *Term {
	g, ok := vc.eng.db.Ghosts[name]
	if !ok || !g.Field {
		refuse("ghost field %s is not declared", name)
	}
	return vc.ghostFieldHeap(st, g, sortInt)
}

func (vc *VC) gfGet(st *State, name string, ref *Term) *Term {
	return Select(vc.gfHeap(st, name), ref, sortInt)
}

func (vc *VC) gfSet(st *State, name string, ref, v *Term) {
	vc.setHeap(st, "GF_"+name, Store(vc.gfHeap(st, name), ref, v))
}

// patArr: the array to use in a pattern: a itself when it is pattern-safe, otherwise the fallback.
func patArr(a, fallback *Term) *Term {
	if patternSafe(a.S) {
		return a
	}
	return fallback
}
