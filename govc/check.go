package main

import (
	"encoding/json"
	"flag"
	"fmt"
	"os"
	"path/filepath"
	"sort"
	"strconv"
	"strings"
	"time"

	"golang.org/x/tools/go/ssa"
)

type Finding struct {
	Property   string `json:"property"`
	Obligation string `json:"obligation"`
	What       string `json:"what"`
	Status     string `json:"status"` // open | fixed
	Commit     string `json:"commit,omitempty"`
	// After: for an open finding, the failing path classes it covers: the obligation fails on paths whose last call
	// (by site name, e.g. "AddNodeBalance#1") is one of these. The same obligation failing after any other call is
	// a different violation and is reported. Empty = any path (avoid).
	After []string `json:"after,omitempty"`
}

type FindingsFile struct {
	Findings []Finding `json:"findings"`
}

func loadFindings(path string) FindingsFile {
	var ff FindingsFile
	data, err := os.ReadFile(path)
	if err != nil {
		return ff
	}
	if err := json.Unmarshal(data, &ff); err != nil {
		fmt.Fprintln(os.Stderr, "known_findings.json:", err)
		os.Exit(2)
	}
	return ff
}

type funcReport struct {
	Func        string  `json:"func"`
	Obligations int     `json:"obligations"`
	Discharged  int     `json:"discharged"`
	Paths       int     `json:"paths"`
	Refused     string  `json:"out_of_reach,omitempty"`
	SolverSecs  float64 `json:"solver_s"`
	Trusted     bool    `json:"trusted,omitempty"`
}

func mentions(ct *Contract, prop string) bool {
	for _, p := range ct.Props {
		if p == prop {
			return true
		}
	}
	for _, cl := range ct.Ensures {
		for _, p := range cl.Props {
			if p == prop {
				return true
			}
		}
	}
	return false
}

func hasProp(props []string, p string) bool {
	for _, x := range props {
		if x == p {
			return true
		}
	}
	return false
}

func cmdCheck(args []string) {
	fs := flag.NewFlagSet("check", flag.ExitOnError)
	prop := fs.String("prop", "", "property id")
	tier := fs.String("tier", "quick", "quick|thorough")
	verifDir := fs.String("verif", "/verif", "verif directory")
	fs.Parse(args)
	t0 := time.Now()
	repo := envOr("VERIF_REPO", "/repo")
	seed, _ := strconv.Atoi(envOr("VERIF_SEED", "0"))
	e, err := NewEngine(repo, filepath.Join(*verifDir, "assumed"), []string{"./..."})
	if err != nil {
		fmt.Fprintln(os.Stderr, "CHECK BROKEN: cannot load /repo:", err)
		os.Exit(2)
	}
	// VERIF_OUT redirects everything a run writes (scratch, replays, evidence): used by the self-test,
	// which checks modified copies of /repo and must not touch the real evidence
	outBase := envOr("VERIF_OUT", "")
	work := filepath.Join(*verifDir, ".work", *prop+"-"+*tier)
	if outBase != "" {
		work = filepath.Join(outBase, "work", *prop+"-"+*tier)
	}
	os.RemoveAll(work)
	os.MkdirAll(work, 0o755)
	opt := Options{Tier: *tier, Seed: seed, Timeout: 10, InlineDepth: 3, MaxPaths: 4096, WorkDir: work}
	if *tier == "thorough" {
		opt.Timeout = 60
		opt.InlineDepth = 4
	}

	// select the functions under contract for this property
	var keys []string
	for k, ct := range e.db.ByFunc {
		if mentions(ct, *prop) {
			keys = append(keys, k)
		}
	}
	sort.Strings(keys)
	if len(keys) == 0 {
		fmt.Fprintf(os.Stderr, "CHECK BROKEN: no function under contract for %s\n", *prop)
		os.Exit(2)
	}
	var all []*Obligation
	var reports []*funcReport
	notes := map[string]bool{}
	used := map[string]bool{}
	vcs := map[string]*VC{}
	broken := []string{}
	for _, k := range keys {
		ct := e.db.ByFunc[k]
		fn := e.FindFunc(k)
		short := strings.TrimPrefix(strings.TrimPrefix(k, e.modPath), "/")
		if fn == nil {
			// the function the contract is written on is gone: whatever it carried for the property is
			// no longer established (reported as an undischarged obligation, not as a broken check;
			// on the unchanged tree either counts against the check)
			all = append(all, &Obligation{Name: short + ":under-contract", Props: ct.Props, Func: short, FuncKey: k, Kind: "under-contract", Pos: "?", Goal: "false",
				Result: SolveResult{Answer: "unknown", Solver: "spec", Output: "the function this contract is written on no longer exists in /repo"}})
			continue
		}
		rep := &funcReport{Func: k}
		reports = append(reports, rep)
		if ct.Trusted {
			rep.Trusted = true
			used["trusted-contract (body not verified): "+k] = true
			continue
		}
		opt.Key = k
		nErr := len(e.specErrors)
		vc := e.Verify(fn, ct, ct.Props, opt)
		if len(e.specErrors) > nErr {
			// clauses that cannot be stated over the current code (a field, variable or function they name is
			// gone): whatever they carried is not established for this function
			msgs := append([]string{}, e.specErrors[nErr:]...)
			e.specErrors = e.specErrors[:nErr]
			all = append(all, &Obligation{Name: short + ":contract-applies", Props: ct.Props, Func: short, FuncKey: k, Kind: "contract-applies", Pos: "?", Goal: "false",
				Result: SolveResult{Answer: "unknown", Solver: "spec", Output: "clauses of the contracts this function is checked against cannot be evaluated over the current code: " + strings.Join(msgs, "; ")}})
		}
		vcs[k] = vc
		rep.Paths = vc.npaths
		if vc.refused != "" {
			rep.Refused = vc.refused
			all = append(all, &Obligation{Name: short + ":under-contract", Props: ct.Props, Func: short, FuncKey: k, Kind: "under-contract", Pos: "?", Goal: "false",
				Result: SolveResult{Answer: "unknown", Solver: "spec", Output: "the body is outside the verifier's subset, nothing about it is established: " + vc.refused}})
		}
		for n := range vc.notes {
			notes[n] = true
		}
		for n := range vc.used {
			used[n] = true
		}
		for _, o := range vc.obls {
			if o.MustFail || hasProp(o.Props, *prop) {
				all = append(all, o)
			}
		}
	}
	for _, m := range e.specErrors {
		broken = append(broken, "contract error: "+m)
	}
	if len(broken) > 0 {
		for _, b := range broken {
			fmt.Println("CHECK BROKEN:", b)
		}
		os.Exit(2)
	}
	Discharge(all, opt)

	if dbg := os.Getenv("VERIF_DEBUG_FUNC"); dbg != "" {
		for _, o := range all {
			if strings.Contains(o.Name, dbg) {
				fmt.Fprintf(os.Stderr, "debug: %s path=%d after=%q mustfail=%v -> %s (%s)\n", o.Name, o.Path, o.After, o.MustFail, o.Result.Answer, o.Result.Solver)
			}
		}
	}
	ff := loadFindings(filepath.Join(*verifDir, "known_findings.json"))
	type failure struct {
		name   string
		obls   []*Obligation
		reason string
	}
	failures := map[string]*failure{}
	var failOrder []string
	nObl, nDis := 0, 0
	solverSecs := 0.0
	bySolver := map[string]int{}
	var samples []interface{}
	perFunc := map[string]*funcReport{}
	for _, r := range reports {
		perFunc[r.Func] = r
	}
	covers, coverSat := 0, 0
	coverSites := map[string]bool{}
	for _, o := range all {
		solverSecs += o.Result.Seconds
		if o.Result.Answer == "error" {
			fmt.Printf("CHECK BROKEN: solver error on %s: %s\n", o.Name, abbreviate(o.Result.Output, 400))
			os.Exit(2)
		}
		if o.MustFail {
			covers++
			site := o.FuncKey + "@" + o.Pos
			if strings.Contains(o.Kind, "cover@entry") {
				site = o.FuncKey + "@entry"
			}
			if _, seen := coverSites[site]; !seen {
				coverSites[site] = false
			}
			if o.Result.Answer != "unsat" {
				coverSites[site] = true
			}
			if o.Result.Answer == "sat" {
				coverSat++
			}
			continue
		}
		nObl++
		if r := perFunc[o.FuncKey]; r != nil {
			r.Obligations++
			r.SolverSecs += o.Result.Seconds
			if o.Result.Answer == "unsat" {
				r.Discharged++
			}
		}
		if o.Result.Answer == "unsat" {
			nDis++
			bySolver[o.Result.Solver]++
			if len(samples) < 6 && o.Result.Solver != "syntactic" {
				samples = append(samples, map[string]interface{}{"obligation": o.Name, "path": o.Path, "at": o.Pos, "answer": "unsat", "solver": o.Result.Solver, "seconds": round2(o.Result.Seconds)})
			}
			continue
		}
		f := failures[o.Name]
		if f == nil {
			f = &failure{name: o.Name}
			failures[o.Name] = f
			failOrder = append(failOrder, o.Name)
		}
		f.obls = append(f.obls, o)
	}
	var deadSites []string
	for site, feasible := range coverSites {
		if !feasible {
			if strings.HasSuffix(site, "@entry") {
				fmt.Printf("CHECK BROKEN: vacuity guard: the precondition of %s is unsatisfiable (contradictory contract or assumption)\n", site)
				os.Exit(2)
			}
			// a return statement no feasible path reaches: dead code, or an assumption that is too strong;
			// reported, not fatal (the obligations on the feasible paths are still meaningful)
			deadSites = append(deadSites, site)
		}
	}
	sort.Strings(deadSites)
	for _, d := range deadSites {
		fmt.Printf("note: no feasible path reaches the return at %s\n", d)
	}
	if nObl == 0 {
		fmt.Printf("CHECK BROKEN: zero obligations generated for %s\n", *prop)
		os.Exit(2)
	}

	// classify failures
	violations := 0
	knownObls := 0
	var knownOut []map[string]string
	replayDir := filepath.Join(*verifDir, "replays", *prop)
	if outBase != "" {
		replayDir = filepath.Join(outBase, "replays", *prop)
	}
	os.MkdirAll(replayDir, 0o755)
	for _, name := range failOrder {
		f := failures[name]
		for _, kf := range ff.Findings {
			if kf.Status == "open" && kf.Property == *prop && kf.Obligation == name {
				// the listed finding covers the failing instances on its own path classes only
				var rest []*Obligation
				covered := 0
				for _, o := range f.obls {
					if len(kf.After) == 0 || containsStr(kf.After, o.After) {
						covered++
					} else {
						rest = append(rest, o)
					}
				}
				if covered > 0 {
					fmt.Printf("KNOWN-FINDING: property=%s %s [%s]\n", *prop, kf.What, name)
					knownOut = append(knownOut, map[string]string{"obligation": name, "what": kf.What})
					knownObls += covered
				}
				f.obls = rest
				break
			}
		}
		if len(f.obls) == 0 {
			continue
		}
		violations++
		path, reproduced := writeReplay(e, *verifDir, replayDir, *prop, f.obls)
		suffix := ""
		if !reproduced {
			suffix = " no-failing-input-found"
		}
		o := f.obls[0]
		fmt.Printf("FAILED OBLIGATION %s at %s: %s (%s)\n", name, o.Pos, o.Result.Answer, strings.Join(o.Result.Tried, " "))
		fmt.Printf("VIOLATION property=%s replay=%s%s\n", *prop, path, suffix)
	}

	// C16: ground instances of the Register contract for the production binaries (the RPC surface)
	surfaceSites := 0
	var surfaceNames map[string][]string
	if *prop == "C16" {
		n, sv, sites := e.surfaceCheck(filepath.Join(*verifDir, "spec", "rpc_surface.json"))
		surfaceSites, surfaceNames = n, sites
		nObl += n + len(sv)
		nDis += n
		bySolver["surface-instantiation"] += n
		for i, v := range sv {
			violations++
			path := filepath.Join(replayDir, fmt.Sprintf("rpc-surface-%d.json", i))
			rec := map[string]interface{}{"property": "C16", "obligation": "rpc-surface", "what": v, "computed_surface": sites,
				"documented_surface": filepath.Join(*verifDir, "spec", "rpc_surface.json"), "replay_verdict": "no-model"}
			data, _ := json.MarshalIndent(rec, "", " ")
			os.WriteFile(path, append(data, '\n'), 0o644)
			fmt.Printf("FAILED OBLIGATION rpc-surface: %s\n", v)
			fmt.Printf("VIOLATION property=C16 replay=%s no-failing-input-found\n", path)
		}
	}

	// evidence
	level := "proof"
	expl := ""
	if violations > 0 {
		level = "other"
		expl = fmt.Sprintf("%d of %d obligations discharged; %d obligation instance(s) belong to listed open known findings, %d named obligation(s) fail as violations. The remaining obligations are proved for all inputs.", nDis, nObl, knownObls, violations)
	} else if len(knownOut) > 0 {
		// obligations of listed open known findings are reported separately and not counted as obligations of this proof
		expl = fmt.Sprintf("%d obligation instance(s) of %d named obligation(s) are open known findings (listed under known_findings; they fail and are NOT proved); they are excluded from 'obligations'. All %d remaining obligations are discharged.", knownObls, len(knownOut), nObl-knownObls)
		nObl -= knownObls
	}
	trusted := []string{}
	for _, u := range sortedKeys(used) {
		trusted = append(trusted, u)
	}
	assumptions := append([]string{
		"machine integers are mathematical integers (no wrap-around)",
		"goroutine interleavings are not explored: a function is verified as sequential code between its lock operations",
		"dependency functions without a model or assumed contract return arbitrary values and leave the vipnode heap untouched",
		"termination is not proved",
	}, sortedKeys(notes)...)
	var funcs []interface{}
	for _, r := range reports {
		r.SolverSecs = round2(r.SolverSecs)
		funcs = append(funcs, r)
	}
	cov := map[string]interface{}{
		"obligations":              nObl,
		"discharged":               nDis,
		"checker_cmd":              fmt.Sprintf("/verif/bin/govc check -prop %s -tier %s (VC generation over go/ssa of %s; z3-new 5.1.0 first, z3 4.8.12 and cvc5 1.0 raced on anything not decided)", *prop, *tier, repo),
		"trusted_base":             trusted,
		"functions_under_contract": funcs,
		"discharged_by_backend":    bySolver,
		"solver_seconds":           round2(solverSecs),
		"vacuity_covers":           map[string]int{"generated": covers, "satisfiable": coverSat},
		"unreachable_return_sites": deadSites,
		"rpc_surface_sites":        surfaceSites,
		"rpc_surface":              surfaceNames,
		"samples":                  samples,
		"known_findings":           knownOut,
		"known_finding_obligation_instances_excluded": knownObls,
		"bounded": []interface{}{},
	}
	if expl != "" {
		cov["explanation"] = expl
	}
	ev := map[string]interface{}{
		"property_id": *prop,
		"tier":        *tier,
		"seed":        seed,
		"level":       level,
		"coverage":    cov,
		"assumptions": assumptions,
		"wall_s":      round2(time.Since(t0).Seconds()),
		"violations":  violations,
	}
	evDir := envOr("VERIF_EVIDENCE_DIR", filepath.Join(*verifDir, "evidence"))
	if outBase != "" {
		evDir = filepath.Join(outBase, "evidence")
	}
	os.MkdirAll(evDir, 0o755)
	data, _ := json.MarshalIndent(ev, "", " ")
	os.WriteFile(filepath.Join(evDir, *prop+".json"), append(data, '\n'), 0o644)
	fmt.Printf("%s %s: %d functions, %d obligations, %d discharged, %d known findings, %d violations, %.1fs\n", *prop, *tier, len(reports), nObl, nDis, len(knownOut), violations, time.Since(t0).Seconds())
	if violations > 0 {
		os.Exit(1)
	}
	if os.Getenv("VERIF_DEBUG_FUNC") == "" {
		os.RemoveAll(work)
	}
}

func round2(f float64) float64 { return float64(int(f*100+0.5)) / 100 }

// writeReplay persists the failed obligation (model, path, script) and tries to replay it on the
// real code through a per-function template. Returns the replay file and whether the
// violation was reproduced on the real code.
func writeReplay(e *Engine, verifDir, dir, prop string, obls []*Obligation) (string, bool) {
	// prefer an obligation instance with a model
	o := obls[0]
	for _, x := range obls {
		if x.Result.Answer == "sat" {
			o = x
			break
		}
	}
	if o.Result.Answer != "sat" {
		for _, x := range obls {
			if x.Candidate {
				o = x
				break
			}
		}
	}
	base := filepath.Join(dir, sanitize(o.Name))
	os.WriteFile(base+".smt2", []byte(o.Script), 0o644)
	model := map[string]string{}
	for k, v := range o.Result.Model {
		label := k
		if l, ok := o.Labels[k]; ok {
			label = l
		}
		model[label] = v
	}
	rec := map[string]interface{}{
		"property":      prop,
		"obligation":    o.Name,
		"kind":          o.Kind,
		"function":      o.Func,
		"at":            o.Pos,
		"path":          o.Trace,
		"solver_answer": o.Result.Answer,
		"solver":        o.Result.Solver,
		"tried":         o.Result.Tried,
		"model":         model,
		"smt_file":      base + ".smt2",
		"solver_output": abbreviate(o.Result.Output, 4000),
		"instances":     len(obls),
	}
	reproduced := false
	verdict := "no-model"
	rec["model_is_candidate_only"] = o.Candidate
	// a template marked "// probe:" needs no model: it runs the real function over a fixed family of
	// inputs chosen for that function's obligations and reports those that break the clause
	if o.Result.Answer == "sat" || o.Candidate || probeTemplate(verifDir, o.Func) {
		verdict = "no-template"
		if ok, out, ran := runReplayTemplate(e, verifDir, base, o, model); ran {
			rec["replay_output"] = abbreviate(out, 4000)
			if ok {
				verdict = "reproduced"
				reproduced = true
			} else {
				verdict = "not-reproduced"
			}
		}
	}
	rec["replay_verdict"] = verdict
	data, _ := json.MarshalIndent(rec, "", " ")
	os.WriteFile(base+".json", append(data, '\n'), 0o644)
	return base + ".json", reproduced
}

var _ = ssa.GlobalDebug

func containsStr(l []string, s string) bool {
	for _, x := range l {
		if x == s {
			return true
		}
	}
	return false
}
