package main

import (
	"fmt"
	"go/constant"
	"go/types"
	"strings"

	"golang.org/x/tools/go/ssa"
)

// Summed-map measures: for a map type, a ghost sum over the values of the present keys,
// maintained at every insert / overwrite / delete. This is the only built-in "theory"
// beyond arrays: it turns an unbounded sum into a first-order quantity.
//
//   //@ measure credit over map[store.Account]store.Balance : bigval(v.Credit)
//
// Spec access: sum(credit, m). In loop invariants over a range of such a map:
// visitedsum(credit) is the sum over the keys visited so far.

type measure struct {
	decl   MeasureDecl
	mt     *types.Map
	heap   string
	pkgEnv *types.Package
}

func (e *Engine) measuresFor(vc *VC, mt *types.Map) []*measure {
	key := types.TypeString(mt, nil)
	if ms, ok := e.measures[key]; ok {
		return ms
	}
	var out []*measure
	for _, d := range e.db.Measures {
		// resolve the declared map type by comparing the printed form with short package names
		if normalizeMapType(d.MapType) == normalizeMapType(shortTypeName(mt)) {
			out = append(out, &measure{decl: d, mt: mt, heap: "SUM_" + d.Name})
		}
	}
	e.measures[key] = out
	return out
}

func normalizeMapType(s string) string {
	s = strings.ReplaceAll(s, " ", "")
	// "pool/store.Account" -> "store.Account"
	var b strings.Builder
	i := 0
	for i < len(s) {
		j := i
		for j < len(s) && (s[j] == '/' || s[j] == '.' || s[j] == '_' || s[j] >= 'a' && s[j] <= 'z' || s[j] >= 'A' && s[j] <= 'Z' || s[j] >= '0' && s[j] <= '9') {
			j++
		}
		if j > i {
			tok := s[i:j]
			if k := strings.LastIndex(tok, "/"); k >= 0 {
				tok = tok[k+1:]
			}
			b.WriteString(tok)
			i = j
		} else {
			b.WriteByte(s[i])
			i++
		}
	}
	return b.String()
}

func (vc *VC) measureVal(st *State, m *measure, v *Term) *Term {
	env := &Env{vc: vc, st: st, vars: map[string]SV{"v": {v, m.mt.Elem()}}, nq: &vc.nq}
	if vc.fn.Pkg != nil {
		env.pkg = vc.fn.Pkg.Pkg
	}
	env = env.inPkg(m.decl.Pkg)
	r, err := env.EvalAny(m.decl.Body)
	if err != nil {
		vc.eng.specError(fmt.Sprintf("measure %s: %v", m.decl.Name, err))
		return IntLit(0)
	}
	return r.V
}

func (vc *VC) sumHeap(st *State, m *measure) *Term {
	return vc.heap(st, m.heap, vc.eng.st.ArrayOf(sortInt, sortInt))
}

func (vc *VC) measureUpdate(st *State, mt *types.Map, ref, was, oldv, now, newv *Term) {
	for _, m := range vc.eng.measuresFor(vc, mt) {
		h := vc.sumHeap(st, m)
		cur := Select(h, ref, sortInt)
		sub := Ite(was, vc.measureVal(st, m, oldv), IntLit(0))
		add := Ite(now, vc.measureVal(st, m, newv), IntLit(0))
		vc.setHeap(st, m.heap, Store(h, ref, Bin(sortInt, "-", Bin(sortInt, "+", cur, add), sub)))
	}
}

func (vc *VC) measureReset(st *State, mt *types.Map, ref *Term) {
	for _, m := range vc.eng.measuresFor(vc, mt) {
		h := vc.sumHeap(st, m)
		vc.setHeap(st, m.heap, Store(h, ref, IntLit(0)))
	}
}

func (vc *VC) measureHavoc(st *State, mt *types.Map) {
	for _, m := range vc.eng.measuresFor(vc, mt) {
		st.heaps[m.heap] = vc.fresh(m.heap, vc.eng.st.ArrayOf(sortInt, sortInt))
	}
}

func (vc *VC) measureHavocAt(st *State, mt *types.Map, ref *Term) {
	for _, m := range vc.eng.measuresFor(vc, mt) {
		h := vc.sumHeap(st, m)
		vc.setHeap(st, m.heap, Store(h, ref, vc.modVal("sum", sortInt, func(w *State) *Term { return Select(vc.sumHeap(w, m), ref, sortInt) })))
	}
}

// iteration support: per iterator, the sum over visited keys, kept in the frame
type iterSums map[string]*Term

func (vc *VC) iterSumsOf(f *Frame, itv ssa.Value) iterSums {
	if f.itsums == nil {
		f.itsums = map[ssa.Value]iterSums{}
	}
	s, ok := f.itsums[itv]
	if !ok {
		s = iterSums{}
		f.itsums[itv] = s
	}
	return s
}

func (vc *VC) measureIterStep(st *State, f *Frame, x *ssa.Next, it *iterState, k, v *Term) {
	for _, m := range vc.eng.measuresFor(vc, it.mapType) {
		s := vc.iterSumsOf(f, x.Iter)
		cur, ok := s[m.decl.Name]
		if !ok {
			cur = IntLit(0)
		}
		s[m.decl.Name] = Bin(sortInt, "+", cur, vc.measureVal(st, m, v))
	}
}

func (vc *VC) measureIterHavoc(st *State, f *Frame, itv ssa.Value, it *iterState) {
	for _, m := range vc.eng.measuresFor(vc, it.mapType) {
		vc.iterSumsOf(f, itv)[m.decl.Name] = vc.fresh("vsum_"+m.decl.Name, sortInt)
	}
}

// measureIterDone: when every present key has been visited and the map was not modified
// during the iteration, the visited sum is the map's sum.
func (vc *VC) measureIterDone(st *State, f *Frame, x *ssa.Next, it *iterState) {
	ms := vc.eng.measuresFor(vc, it.mapType)
	if len(ms) == 0 {
		return
	}
	// is the map type modified inside the loop containing this Next?
	loops := vc.eng.loopsOf(f.fn)
	for _, li := range loops {
		if !li.body[x.Block()] {
			continue
		}
		for _, m := range vc.loopMods(f.fn, li, map[*ssa.Function]bool{}) {
			if m.kind == "all" || (m.kind == "map" && types.Identical(m.mt, it.mapType)) {
				vc.note("map of type %s is modified while ranged over: visited sum not related to the map sum", it.mapType)
				return
			}
		}
	}
	for _, m := range ms {
		s := vc.iterSumsOf(f, x.Iter)
		cur, ok := s[m.decl.Name]
		if !ok {
			cur = IntLit(0)
		}
		st.assume(Eq(cur, Select(vc.sumHeap(st, m), it.mapRef, sortInt)))
	}
}

// evalMeasureCall handles sum(name, m) and visitedsum(name) in specs.
func (env *Env) evalMeasureCall(x *ECall) (SV, bool) {
	vc := env.vc
	switch x.Fun {
	case "sum":
		if len(x.Args) != 2 {
			specFail("sum(measure, map)")
		}
		id, ok := x.Args[0].(*EIdent)
		if !ok {
			specFail("sum: first argument must be a measure name")
		}
		m := env.eval(x.Args[1])
		mt, ok := types.Unalias(m.T).Underlying().(*types.Map)
		if m.T == nil || !ok {
			specFail("sum: second argument is not a map")
		}
		for _, ms := range vc.eng.measuresFor(vc, mt) {
			if ms.decl.Name == id.Name {
				return SV{Select(vc.sumHeap(env.st, ms), m.V, sortInt), types.Typ[types.Int]}, true
			}
		}
		specFail("sum: no measure %s over %s", id.Name, mt)
	case "visitedsum":
		id, ok := x.Args[0].(*EIdent)
		if !ok || env.frame == nil || env.loop == nil {
			specFail("visitedsum(measure) is only available in loop invariants")
		}
		for itv := range env.frame.iters {
			for b := range env.loop.body {
				for _, ins := range b.Instrs {
					if nx, ok := ins.(*ssa.Next); ok && nx.Iter == itv {
						s := vc.iterSumsOf(env.frame, itv)
						if t, ok := s[id.Name]; ok {
							return SV{t, types.Typ[types.Int]}, true
						}
						return SV{IntLit(0), types.Typ[types.Int]}, true
					}
				}
			}
		}
		specFail("visitedsum: no map iterator in this loop")
	}
	return SV{}, false
}

func constantString(k *ssa.Const) string {
	if k.Value == nil || k.Value.Kind() != constant.String {
		return ""
	}
	return constant.StringVal(k.Value)
}

// variadicOperands recovers the operands of a variadic call "f(fmt, a, b)" from the
// "new [n]any; store; slice" pattern go/ssa generates.
func variadicOperands(v ssa.Value) ([]ssa.Value, bool) {
	sl, ok := v.(*ssa.Slice)
	if !ok {
		return nil, false
	}
	al, ok := sl.X.(*ssa.Alloc)
	if !ok {
		return nil, false
	}
	arr, ok := al.Type().(*types.Pointer).Elem().Underlying().(*types.Array)
	if !ok {
		return nil, false
	}
	out := make([]ssa.Value, arr.Len())
	for _, ref := range *al.Referrers() {
		ia, ok := ref.(*ssa.IndexAddr)
		if !ok {
			continue
		}
		k, ok := ia.Index.(*ssa.Const)
		if !ok {
			return nil, false
		}
		idx := int(k.Int64())
		for _, r2 := range *ia.Referrers() {
			if s, ok := r2.(*ssa.Store); ok && s.Addr == ia {
				val := s.Val
				if mi, ok := val.(*ssa.MakeInterface); ok {
					val = mi.X
				}
				out[idx] = val
			}
		}
	}
	for _, o := range out {
		if o == nil {
			return nil, false
		}
	}
	return out, true
}

func (vc *VC) singleVariadic(st *State, c *ssa.CallCommon, args []Value) (*Term, bool) {
	if len(c.Args) != 2 || vc.curFrame == nil {
		return nil, false
	}
	ops, ok := variadicOperands(c.Args[1])
	if !ok || len(ops) != 1 {
		return nil, false
	}
	v := vc.value(st, vc.curFrame, ops[0])
	t := vc.term(st, v, "sprintf")
	if t.Sort.Kind != KStr {
		return nil, false
	}
	return t, true
}

// keyFormat models fmt.Sprintf("<prefix>%s", x) as an injective function of x whose range
// is disjoint from the ranges of the other prefixes.
func (vc *VC) keyFormat(st *State, prefix string, arg *Term) *Term {
	id := vc.eng.keyPrefixID(prefix)
	fn := fmt.Sprintf("keyfn_%d", id)
	inv := fmt.Sprintf("keyinv_%d", id)
	vc.declareFun(fn, []*Sort{sortStr}, sortStr)
	vc.declareFun(inv, []*Sort{sortStr}, sortStr)
	vc.declareFun("keyspace", []*Sort{sortStr}, sortInt)
	k := App(sortStr, fn, arg)
	// injective, and its range is disjoint from the ranges of the other formats (stated once, for all arguments,
	// so that the function can be used under quantifiers in specifications)
	vc.axiom(fmt.Sprintf("(forall ((x Str)) (! (and (= (%s (%s x)) x) (= (keyspace (%s x)) %d)) :pattern ((%s x))))", inv, fn, fn, id, fn))
	vc.note("fmt.Sprintf(%q, x) is an injective function of x with a range disjoint from the other key formats (prefix freedom checked syntactically)", prefix+"%s")
	return k
}

func (e *Engine) keyPrefixID(prefix string) int {
	if id, ok := e.keyPrefixes[prefix]; ok {
		return id
	}
	for p := range e.keyPrefixes {
		if strings.HasPrefix(p, prefix) || strings.HasPrefix(prefix, p) {
			e.specError(fmt.Sprintf("key format prefixes %q and %q are not prefix-free", p, prefix))
		}
	}
	id := len(e.keyPrefixes) + 1
	e.keyPrefixes[prefix] = id
	return id
}
