package main

import (
	"fmt"
	"go/types"
	"strconv"
	"strings"

	"golang.org/x/tools/go/ssa"
)

// Iteration over a key space of the database model (badger.Iterator), used by the driver's
// listing methods and by the format migration.
//
//   KVITcur : Array Int Str                 the key the iterator stands on
//   KVITvis : Array Int (Array Str Bool)    the keys it has moved past since the last Seek
//
// Assumed about badger (listed in the evidence of every run that uses the model): between
// Seek(prefix) and the first ValidForPrefix(prefix) == false the iterator stands, once each and in
// an order the model leaves open, on every live key that starts with the prefix; a key written
// with the format fmt.Sprintf("prefix%s", x) starts with that prefix and every key that starts with
// the prefix has that format; Item().Value(fn) hands fn the bytes stored under the current key.

func (vc *VC) kvitCur(st *State) *Term {
	return vc.heap(st, "KVITcur", vc.eng.st.ArrayOf(sortInt, sortStr))
}

// kvitSum: per iterator, the sum of Credit over the entries it has moved past (ledger key spaces only)
func (vc *VC) kvitSum(st *State) *Term {
	return vc.heap(st, "KVITsum", vc.eng.st.ArrayOf(sortInt, sortInt))
}
func (vc *VC) kvitVis(st *State) *Term {
	ST := vc.eng.st
	return vc.heap(st, "KVITvis", ST.ArrayOf(sortInt, ST.ArrayOf(sortStr, sortBool)))
}

// literalOf: the Go string a string term was built from, when it is a literal.
func (e *Engine) literalOf(t *Term) (string, bool) {
	if t.S == "str_empty" {
		return "", true
	}
	for s, n := range e.strLits {
		if n == t.S {
			return s, true
		}
	}
	return "", false
}

// kvPrefixID: the key-space id of a []byte prefix argument that was converted from a string literal on this path.
func (vc *VC) kvPrefixID(st *State, v Value, what string) int {
	s := vc.term(st, v, "prefix")
	for _, c := range st.strConvs {
		if strings.Contains(s.S, c.ref.S) {
			if lit, ok := vc.eng.literalOf(c.str); ok {
				return vc.eng.keyPrefixID(lit)
			}
		}
	}
	refuse("%s: the prefix is not a []byte(\"literal\") made on this path", what)
	return 0
}

// declareKeySpace declares the key format functions of a key space and the axioms tying them together.
func (vc *VC) declareKeySpace(id int) {
	fn := fmt.Sprintf("keyfn_%d", id)
	inv := fmt.Sprintf("keyinv_%d", id)
	vc.declareFun(fn, []*Sort{sortStr}, sortStr)
	vc.declareFun(inv, []*Sort{sortStr}, sortStr)
	vc.declareFun("keyspace", []*Sort{sortStr}, sortInt)
	vc.axiom(fmt.Sprintf("(forall ((x Str)) (! (and (= (%s (%s x)) x) (= (keyspace (%s x)) %d)) :pattern ((%s x))))", inv, fn, fn, id, fn))
	// every key of the space has the format
	vc.axiom(fmt.Sprintf("(forall ((k Str)) (! (=> (= (keyspace k) %d) (= (%s (%s k)) k)) :pattern ((%s k))))", id, fn, inv, inv))
}

func init() {
	lib := "(*" + badgerLib
	kvModels[lib+".Txn).NewIterator"] = func(vc *VC, st *State, c *ssa.CallCommon, args []Value, pos string) Value {
		vc.note("badger iterators are modelled as a visit, once each and in an unspecified order, of the live keys of one key space")
		return vc.newRef(st, "iter")
	}
	kvModels[lib+".Iterator).Close"] = func(vc *VC, st *State, c *ssa.CallCommon, args []Value, pos string) Value { return nil }
	kvModels[lib+".Iterator).Seek"] = func(vc *VC, st *State, c *ssa.CallCommon, args []Value, pos string) Value {
		ST := vc.eng.st
		it := vc.term(st, args[0], "it")
		id := vc.kvPrefixID(st, args[1], "Iterator.Seek")
		vc.declareKeySpace(id)
		vc.iterPid[it.S] = id
		vc.setHeap(st, "KVITvis", Store(vc.kvitVis(st), it, ST.Zero(ST.ArrayOf(sortStr, sortBool))))
		vc.setHeap(st, "KVITcur", Store(vc.kvitCur(st), it, vc.fresh("itkey", sortStr)))
		vc.setHeap(st, "KVITsum", Store(vc.kvitSum(st), it, IntLit(0)))
		// what the database held when the walk started: the visited sum equals the space's sum at the end only if
		// nothing was written in between
		vc.iterSeekState[it.S] = kvFingerprint(st)
		return nil
	}
	kvModels[lib+".Iterator).Next"] = func(vc *VC, st *State, c *ssa.CallCommon, args []Value, pos string) Value {
		ST := vc.eng.st
		it := vc.term(st, args[0], "it")
		cur := Select(vc.kvitCur(st), it, sortStr)
		vis := Select(vc.kvitVis(st), it, ST.ArrayOf(sortStr, sortBool))
		vc.setHeap(st, "KVITvis", Store(vc.kvitVis(st), it, Store(vis, cur, tTrue)))
		vc.setHeap(st, "KVITcur", Store(vc.kvitCur(st), it, vc.fresh("itkey", sortStr)))
		if id, ok := vc.iterPid[it.S]; ok && (id == vc.eng.keyPrefixID("vip:balance:") || id == vc.eng.keyPrefixID("vip:trial:")) {
			if bt := vc.eng.balanceType(); bt != nil {
				bs := vc.eng.st.SortOf(bt)
				_, h := vc.kvVal(st, bs)
				sums := vc.kvitSum(st)
				vc.setHeap(st, "KVITsum", Store(sums, it, Bin(sortInt, "+", Select(sums, it, sortInt), vc.balanceCredit(Select(h, cur, bs), bs))))
			}
		}
		return nil
	}
	kvModels[lib+".Iterator).ValidForPrefix"] = func(vc *VC, st *State, c *ssa.CallCommon, args []Value, pos string) Value {
		ST := vc.eng.st
		it := vc.term(st, args[0], "it")
		id := vc.kvPrefixID(st, args[1], "Iterator.ValidForPrefix")
		vc.declareKeySpace(id)
		if was, ok := vc.iterPid[it.S]; ok && was != id {
			refuse("iterator used with two different prefixes")
		}
		vc.iterPid[it.S] = id
		cur := Select(vc.kvitCur(st), it, sortStr)
		vis := Select(vc.kvitVis(st), it, ST.ArrayOf(sortStr, sortBool))
		b := vc.fresh("valid", sortBool)
		inSpace := func(k *Term) *Term { return Eq(App(sortInt, "keyspace", k), IntLit(int64(id))) }
		st.assume(Implies(b, And(vc.kvLive(st, cur), inSpace(cur), Not(Select(vis, cur, sortBool)))))
		q := fmt.Sprintf("ik%d", vc.nfresh)
		vc.nfresh++
		k := T(sortStr, q)
		all := fmt.Sprintf("(forall ((%s Str)) (! (=> %s %s) :pattern ((select %s %s))))", q, And(vc.kvLive(st, k), inSpace(k)).S, Select(vis, k, sortBool).S, vis.S, q)
		st.assume(Implies(Not(b), T(sortBool, all)))
		if id != vc.eng.keyPrefixID("vip:balance:") && id != vc.eng.keyPrefixID("vip:trial:") {
			// the visited sum only ever grows over the two ledger key spaces
			st.assume(Eq(Select(vc.kvitSum(st), it, sortInt), IntLit(0)))
		} else if fp, ok := vc.iterSeekState[it.S]; ok && fp == kvFingerprint(st) {
			// every live entry of the space was passed exactly once and the database was not written meanwhile
			st.assume(Implies(Not(b), Eq(Select(vc.kvitSum(st), it, sortInt), Select(vc.kvSums(st), IntLit(int64(id)), sortInt))))
		}
		return b
	}
	kvModels[lib+".Iterator).Item"] = func(vc *VC, st *State, c *ssa.CallCommon, args []Value, pos string) Value {
		return args[0] // the item is addressed through its iterator
	}
	kvModels[lib+".Item).Key"] = func(vc *VC, st *State, c *ssa.CallCommon, args []Value, pos string) Value {
		ST := vc.eng.st
		it := vc.term(st, args[0], "item")
		cur := Select(vc.kvitCur(st), it, sortStr)
		r := vc.newRef(st, "keybytes")
		n, h := vc.arrHeap(st, sortInt)
		vc.setHeap(st, n, Store(h, r, App(ST.ArrayOf(sortInt, sortInt), "str2arr", cur)))
		ln := App(sortInt, "strlen", cur)
		st.strConvs = append(st.strConvs[:len(st.strConvs):len(st.strConvs)], strConv{ref: r, str: cur, borrowed: strings.HasSuffix(c.Value.Name(), "Key")})
		// a key of the space the iterator walks is fmt.Sprintf(prefix+"%s", x) for exactly one x, and x is what is
		// left of the key once the prefix is cut off (stated for this key only)
		if id, ok := vc.iterPid[it.S]; ok {
			for prefix, pid := range vc.eng.keyPrefixes {
				if pid != id {
					continue
				}
				fn, inv := fmt.Sprintf("keyfn_%d", id), fmt.Sprintf("keyinv_%d", id)
				vc.declareFun(fn, []*Sort{sortStr}, sortStr)
				vc.declareFun(inv, []*Sort{sortStr}, sortStr)
				rest := App(sortStr, inv, cur)
				pl := IntLit(int64(len(prefix)))
				st.assume(Implies(Eq(App(sortInt, "keyspace", cur), IntLit(int64(id))), And(
					Eq(App(sortStr, fn, rest), cur),
					Eq(ln, Bin(sortInt, "+", pl, App(sortInt, "strlen", rest))),
					Eq(App(sortStr, "bytes2str", App(ST.ArrayOf(sortInt, sortInt), "str2arr", cur), pl, Bin(sortInt, "-", ln, pl)), rest))))
				vc.note("a key with the prefix %q is that prefix followed by the formatted argument (fmt.Sprintf with a single %%s)", prefix)
			}
		}
		return mkSlice(r, IntLit(0), ln, ln)
	}
	kvModels[lib+".Item).KeyCopy"] = kvModels[lib+".Item).Key"] // same bytes, in an array of the caller's own
	kvModels[lib+".Item).Value"] = kvItemValue
}

// kvItemValue: item.Value(func(val []byte) error { [reset the destination;] return gob.NewDecoder(bytes.NewReader(val)).Decode(dst) }).
// The function literal is not executed: its shape is recognised (anything else is refused) and the
// decode is performed by the model, with the merge rule of getItem.
func kvItemValue(vc *VC, st *State, c *ssa.CallCommon, args []Value, pos string) Value {
	ST := vc.eng.st
	cl, ok := args[1].(*Closure)
	if !ok || len(cl.Fn.Blocks) != 1 {
		refuse("Item.Value with a callback that is not a straight-line function literal")
	}
	var dst ssa.Value
	reset := false
	for _, ins := range cl.Fn.Blocks[0].Instrs {
		switch x := ins.(type) {
		case *ssa.UnOp, *ssa.MakeInterface, *ssa.Return, *ssa.DebugRef:
		case *ssa.Call:
			callee := x.Call.StaticCallee()
			if callee == nil {
				refuse("Item.Value callback makes a dynamic call")
			}
			switch callee.String() {
			case "reflect.ValueOf", "(reflect.Value).Elem", "(reflect.Value).Type", "reflect.Zero", "bytes.NewReader", "encoding/gob.NewDecoder":
			case "(reflect.Value).Set":
				reset = true
			case "(*encoding/gob.Decoder).Decode":
				dst = x.Call.Args[1]
			default:
				refuse("Item.Value callback calls %s, which the model does not know", callee)
			}
		default:
			refuse("Item.Value callback contains %T, which the model does not know", ins)
		}
	}
	if dst == nil {
		refuse("Item.Value callback does not decode the value")
	}
	// the destination: a captured pointer boxed in place, or the contents of a captured interface variable
	var p *Ptr
	var et types.Type
	bindOf := func(v ssa.Value) (Value, bool) {
		for i, fv := range cl.Fn.FreeVars {
			if fv == v && i < len(cl.Bind) {
				return cl.Bind[i], true
			}
		}
		return nil, false
	}
	switch d := dst.(type) {
	case *ssa.MakeInterface:
		bv, ok := bindOf(d.X)
		pt, isPtr := d.X.Type().Underlying().(*types.Pointer)
		if !ok || !isPtr {
			refuse("Item.Value callback decodes into something that is not a captured pointer")
		}
		et = pt.Elem()
		p = vc.asPtr(bv, et)
	case *ssa.UnOp:
		bv, ok := bindOf(d.X)
		if !ok {
			refuse("Item.Value callback decodes into something that is not a captured variable")
		}
		cellT := d.X.Type().Underlying().(*types.Pointer).Elem()
		iv := vc.unfoldSelect(vc.term(st, vc.load(st, vc.asPtr(bv, cellT)), "into"))
		tag, err := strconv.Atoi(ifaceTag(iv).S)
		if err != nil || tag <= 0 || tag > len(vc.eng.tagTypes) {
			refuse("Item.Value callback decodes into an interface value whose dynamic type is not known statically: %s", abbreviate(iv.S, 300))
		}
		pt, isPtr := vc.eng.tagTypes[tag-1].Underlying().(*types.Pointer)
		if !isPtr {
			refuse("Item.Value callback decodes into a non-pointer")
		}
		et = pt.Elem()
		p = vc.asPtr(ifaceVal(iv), et)
	default:
		refuse("Item.Value callback decodes into %T", dst)
	}
	if _, isMap := types.Unalias(et).Underlying().(*types.Map); isMap {
		refuse("Item.Value decoding into a map")
	}
	it := vc.term(st, args[0], "item")
	key := Select(vc.kvitCur(st), it, sortStr)
	s := ST.SortOf(et)
	if id, ok := vc.iterPid[it.S]; ok {
		vc.kvTypeCheck(T(sortStr, fmt.Sprintf("(keyfn_%d _)", id)), s.Name)
	}
	_, h := vc.kvVal(st, s)
	stored := Select(h, key, s)
	old := vc.term(st, vc.load(st, p), "into")
	if reset {
		old = ST.Zero(s)
	}
	err := vc.maybeExtError(st, "r_Value_err")
	// badger returns ErrKeyNotFound from Txn.Get only (v2.0.3: txn.go, merge.go); reading or decoding a value fails otherwise
	st.assume(Not(Eq(err, vc.badgerErr(st, "ErrKeyNotFound"))))
	okT := Eq(ifaceTag(err), IntLit(0))
	garbage := vc.fresh("partial", s)
	vc.typeFacts(st, garbage, et)
	vc.store(st, p, Ite(okT, vc.gobMerge(old, stored, et, true), garbage))
	return err
}

// rand.Shuffle(n, func(i, j int) { s[i], s[j] = s[j], s[i] }) over a captured slice variable: the first n
// elements are permuted (an injective re-indexing onto themselves), nothing else changes. The swap function
// is not executed: its shape is checked (loads of one captured slice variable, element addresses indexed by the
// two parameters, two loads and two stores that cross them over); anything else is refused.
func shuffleModel(vc *VC, st *State, c *ssa.CallCommon, args []Value, pos string) Value {
	ST := vc.eng.st
	cl, ok := args[1].(*Closure)
	if !ok || len(cl.Fn.Blocks) != 1 || len(cl.Fn.FreeVars) != 1 || len(cl.Bind) != 1 {
		refuse("rand.Shuffle with a swap function that is not a literal over one captured slice")
	}
	fv := cl.Fn.FreeVars[0]
	cellT := fv.Type().Underlying().(*types.Pointer).Elem()
	slT, ok := cellT.Underlying().(*types.Slice)
	if !ok {
		refuse("rand.Shuffle: the captured variable is not a slice")
	}
	pi, pj := cl.Fn.Params[0], cl.Fn.Params[1]
	// element address -> which parameter indexes it
	idxOf := map[ssa.Value]ssa.Value{}
	loadOf := map[ssa.Value]ssa.Value{} // loaded value -> element address
	stores := map[ssa.Value]ssa.Value{} // index parameter stored to -> index parameter the value came from
	for _, ins := range cl.Fn.Blocks[0].Instrs {
		switch x := ins.(type) {
		case *ssa.DebugRef, *ssa.Return:
		case *ssa.UnOp:
			if x.X == fv {
				continue
			}
			if _, isElem := idxOf[x.X]; isElem {
				loadOf[x] = x.X
				continue
			}
			refuse("rand.Shuffle swap function: unexpected load")
		case *ssa.IndexAddr:
			u, ok := x.X.(*ssa.UnOp)
			if !ok || u.X != fv || (x.Index != pi && x.Index != pj) {
				refuse("rand.Shuffle swap function: unexpected element address")
			}
			idxOf[x] = x.Index
		case *ssa.Store:
			src, ok := loadOf[x.Val]
			if !ok || idxOf[x.Addr] == nil {
				refuse("rand.Shuffle swap function: unexpected store")
			}
			stores[idxOf[x.Addr]] = idxOf[src]
		default:
			refuse("rand.Shuffle swap function contains %T", ins)
		}
	}
	if stores[pi] != pj || stores[pj] != pi || len(stores) != 2 {
		refuse("rand.Shuffle swap function does not exchange elements i and j")
	}
	vc.note("rand.Shuffle(n, swap) permutes the first n elements of the slice its swap function exchanges elements of (shape of the swap function checked, choice of permutation arbitrary)")
	n := vc.term(st, args[0], "n")
	s := vc.term(st, vc.load(st, vc.asPtr(cl.Bind[0], cellT)), "shuffled")
	vc.safetyCheck(st, "index", And(Bin(sortBool, ">=", n, IntLit(0)), Bin(sortBool, "<=", n, sliceLen(s))), c.Pos())
	es := ST.SortOf(slT.Elem())
	name, h := vc.arrHeap(st, es)
	old := Select(h, sliceArr(s), ST.ArrayOf(sortInt, es))
	na := vc.fresh("shuffled", ST.ArrayOf(sortInt, es))
	pf := fmt.Sprintf("perm_%d", vc.nfresh)
	vc.nfresh++
	vc.declareFun(pf, []*Sort{sortInt}, sortInt)
	lo := sliceOff(s)
	hi := Bin(sortInt, "+", lo, n)
	in := func(v string) string { return fmt.Sprintf("(and (<= %s %s) (< %s %s))", lo.S, v, v, hi.S) }
	st.assume(T(sortBool, fmt.Sprintf("(forall ((p Int)) (! (ite %s (and %s (= (select %s p) (select %s (%s p)))) (= (select %s p) (select %s p))) :pattern ((select %s p))))",
		in("p"), in("("+pf+" p)"), na.S, old.S, pf, na.S, old.S, na.S)))
	st.assume(T(sortBool, fmt.Sprintf("(forall ((p Int) (q Int)) (! (=> (and %s %s (not (= p q))) (not (= (%s p) (%s q)))) :pattern ((%s p) (%s q))))",
		in("p"), in("q"), pf, pf, pf, pf)))
	vc.setHeap(st, name, Store(h, sliceArr(s), na))
	return nil
}

func init() {
	kvModels["math/rand.Shuffle"] = shuffleModel
}

// kvFingerprint identifies the contents of the database heaps on a path (term identity): equal fingerprints mean
// nothing was written between two points.
func kvFingerprint(st *State) string {
	var b strings.Builder
	for _, n := range sortedKeys(func() map[string]bool {
		m := map[string]bool{}
		for _, x := range kvHeapNames(st) {
			if !strings.HasPrefix(x, "KVIT") {
				m[x] = true
			}
		}
		return m
	}()) {
		b.WriteString(n + "=" + st.heaps[n].S + ";")
	}
	return b.String()
}

// bytes.Buffer used as a string builder (Reset / WriteString / WriteRune / String): the buffer's contents as a ghost
// string per buffer object. Besides new = old ++ s, the model states the re-association a prefix/suffix argument needs:
// when old is itself a ++ b, new == a ++ (b ++ s).
func (vc *VC) bufHeap(st *State) *Term {
	return vc.heap(st, "BUFSTR", vc.eng.st.ArrayOf(sortInt, sortStr))
}

func (vc *VC) bufRef(v Value) *Term {
	if p, ok := v.(*Ptr); ok && len(p.Path) == 0 {
		return p.Base
	}
	refuse("bytes.Buffer that is a field or element of another object")
	return nil
}

func (vc *VC) bufAppend(st *State, recv Value, s *Term) {
	r := vc.bufRef(recv)
	old := Select(vc.bufHeap(st), r, sortStr)
	nw := vc.strCat(st, old, s)
	if a, ok := ctorArgs(old.S, "strcat"); ok && len(a) == 2 {
		st.assume(Eq(nw, vc.strCat(st, T(sortStr, a[0]), vc.strCat(st, T(sortStr, a[1]), s))))
	}
	vc.setHeap(st, "BUFSTR", Store(vc.bufHeap(st), r, nw))
}

func init() {
	kvModels["(*bytes.Buffer).Reset"] = func(vc *VC, st *State, c *ssa.CallCommon, args []Value, pos string) Value {
		vc.setHeap(st, "BUFSTR", Store(vc.bufHeap(st), vc.bufRef(args[0]), T(sortStr, "str_empty")))
		return nil
	}
	kvModels["(*bytes.Buffer).WriteString"] = func(vc *VC, st *State, c *ssa.CallCommon, args []Value, pos string) Value {
		s := vc.term(st, args[1], "s")
		vc.bufAppend(st, args[0], s)
		return Tuple{App(sortInt, "strlen", s), T(sortIface, "(mk_iface 0 0)")}
	}
	kvModels["(*bytes.Buffer).WriteRune"] = func(vc *VC, st *State, c *ssa.CallCommon, args []Value, pos string) Value {
		vc.declareFun("runestr", []*Sort{sortInt}, sortStr)
		rs := App(sortStr, "runestr", vc.term(st, args[1], "r"))
		st.assume(Bin(sortBool, ">=", App(sortInt, "strlen", rs), IntLit(1)))
		vc.bufAppend(st, args[0], rs)
		return Tuple{App(sortInt, "strlen", rs), T(sortIface, "(mk_iface 0 0)")}
	}
	kvModels["(*bytes.Buffer).String"] = func(vc *VC, st *State, c *ssa.CallCommon, args []Value, pos string) Value {
		if p, ok := args[0].(*Ptr); ok && p.Nil {
			return vc.eng.strLit("<nil>")
		}
		return Select(vc.bufHeap(st), vc.bufRef(args[0]), sortStr)
	}
}
