package main

import (
	"fmt"
	"go/types"
	"sort"
	"strings"

	"golang.org/x/tools/go/ssa"
)

// Value is what an SSA register holds during symbolic execution:
//
//	*Term     an SMT value
//	*Ptr      a pointer (object reference plus a static path into it)
//	Tuple     several values
//	*Closure  a function value whose target is known
type Value interface{}

type Tuple []Value

type Closure struct {
	Fn   *ssa.Function
	Bind []Value
}

type RootKind int

const (
	RObj  RootKind = iota // object in heap H_<Sort>
	RElem                 // element Idx of backing array Base in HA_<Sort>
	RArr                  // whole backing array Base in HA_<Sort> (pointer to a Go array); Sort is the element sort
)

type PathStep struct {
	Field int   // field index when Index == nil
	Index *Term // element index (Go array valued field / array)
}

type Ptr struct {
	Root RootKind
	Base *Term
	Idx  *Term
	Sort *Sort // sort of the root object (RObj), of the element (RElem, RArr)
	Path []PathStep
	Nil  bool // the nil pointer constant of unknown pointee
}

func (p *Ptr) withStep(s PathStep) *Ptr {
	q := *p
	q.Path = append(append([]PathStep{}, p.Path...), s)
	return &q
}

type deferRec struct {
	call *ssa.CallCommon
	args []Value // evaluated receiver/args (in Common order: Value then Args for invoke; Args for call)
	fnv  Value   // evaluated function value for dynamic calls
	pos  string
}

type iterState struct {
	mapRef  *Term
	keySort *Sort
	valSort *Sort
	mapType *types.Map
	visited *Term // (Array K Bool)
}

type Frame struct {
	fn        *ssa.Function
	regs      map[ssa.Value]Value
	block     *ssa.BasicBlock
	prev      *ssa.BasicBlock
	idx       int
	defers    []deferRec
	retTo     ssa.Value                                    // register in the caller frame receiving the result; nil for deferred/go
	loopEntry map[*ssa.BasicBlock]*State                   // per loop header: the state in which the loop was entered (for entry(...) in invariants)
	onReturn  func(vc *VC, st *State, res []Value) []Value // post-processing of an inlined frame's results (transaction commit/rollback)
	cut       map[*ssa.BasicBlock]bool
	iters     map[ssa.Value]*iterState
	contract  *Contract // contract whose loop invariants apply to this frame (may be nil)
	inDefers  bool
	itsums    map[ssa.Value]iterSums
	names     map[string]ssa.Value       // source variable -> the SSA value most recently bound to it on this path (from DebugRefs)
	objs      map[types.Object]ssa.Value // the same per declared object (several objects may share a name)
}

func (f *Frame) clone() *Frame {
	g := *f
	g.regs = make(map[ssa.Value]Value, len(f.regs))
	for k, v := range f.regs {
		g.regs[k] = v
	}
	g.defers = append([]deferRec{}, f.defers...)
	if f.loopEntry != nil {
		g.loopEntry = make(map[*ssa.BasicBlock]*State, len(f.loopEntry))
		for k, v := range f.loopEntry {
			g.loopEntry[k] = v
		}
	}
	g.cut = make(map[*ssa.BasicBlock]bool, len(f.cut))
	for k, v := range f.cut {
		g.cut[k] = v
	}
	if f.itsums != nil {
		g.itsums = make(map[ssa.Value]iterSums, len(f.itsums))
		for k, v := range f.itsums {
			c := iterSums{}
			for a, b := range v {
				c[a] = b
			}
			g.itsums[k] = c
		}
	}
	if f.names != nil {
		g.names = make(map[string]ssa.Value, len(f.names))
		for k, v := range f.names {
			g.names[k] = v
		}
		g.objs = make(map[types.Object]ssa.Value, len(f.objs))
		for k, v := range f.objs {
			g.objs[k] = v
		}
	}
	g.iters = make(map[ssa.Value]*iterState, len(f.iters))
	for k, v := range f.iters {
		c := *v
		g.iters[k] = &c
	}
	return &g
}

type Event struct {
	Kind string // go | call | send
	Name string
	Args []Value
}

type State struct {
	pc       []string
	heaps    map[string]*Term
	ghosts   map[string]*Term
	globals  map[*ssa.Global]Value
	frames   []*Frame
	trace    []string
	alloc    *Term
	clock    *Term // last clock reading (monotone)
	events   []Event
	dead     bool
	gmaps    []guardedMap // map references loaded from mutex-guarded fields on this path
	lastRecv *Term        // the channel the function most recently received from on this path
	lastCall string       // site of the most recent call made by the function under contract on this path
	txnCount int          // database transactions completed on this path
	strConvs []strConv    // []byte(s) conversions made on this path: the fresh array and the string it holds
	epoch    string       // set when every heap was havocked: heaps first touched afterwards are not the entry heaps
	epochAlloc *Term      // the allocation counter at that point
}

type strConv struct {
	ref      *Term
	str      *Term
	borrowed bool // the array belongs to a badger iterator (Item.Key): valid only until the iterator moves on
}

// guardedMap: a map reference read out of a guarded field; operations on the same map through
// a local alias still need the owning mutex.
type guardedMap struct {
	ref  *Term
	mu   *Ptr
	mt   *types.Map
	name string
}

func (s *State) clone() *State {
	t := &State{alloc: s.alloc, clock: s.clock, gmaps: s.gmaps[:len(s.gmaps):len(s.gmaps)], txnCount: s.txnCount, lastCall: s.lastCall, lastRecv: s.lastRecv, strConvs: s.strConvs[:len(s.strConvs):len(s.strConvs)], epoch: s.epoch, epochAlloc: s.epochAlloc}
	t.pc = append([]string{}, s.pc...)
	t.heaps = make(map[string]*Term, len(s.heaps))
	for k, v := range s.heaps {
		t.heaps[k] = v
	}
	t.ghosts = make(map[string]*Term, len(s.ghosts))
	for k, v := range s.ghosts {
		t.ghosts[k] = v
	}
	t.globals = make(map[*ssa.Global]Value, len(s.globals))
	for k, v := range s.globals {
		t.globals[k] = v
	}
	t.frames = make([]*Frame, len(s.frames))
	for i, f := range s.frames {
		t.frames[i] = f.clone()
	}
	t.trace = append([]string{}, s.trace...)
	t.events = append([]Event{}, s.events...)
	return t
}

// snapshot copies only what spec evaluation of old(...) needs.
func (s *State) snapshot() *State {
	t := &State{alloc: s.alloc, clock: s.clock}
	t.heaps = make(map[string]*Term, len(s.heaps))
	for k, v := range s.heaps {
		t.heaps[k] = v
	}
	t.ghosts = make(map[string]*Term, len(s.ghosts))
	for k, v := range s.ghosts {
		t.ghosts[k] = v
	}
	t.globals = s.globals
	t.events = s.events
	return t
}

func (s *State) top() *Frame { return s.frames[len(s.frames)-1] }

func (s *State) assume(t *Term) {
	if t == nil || t.S == "true" {
		return
	}
	if t.S == "false" {
		s.dead = true
	}
	s.pc = append(s.pc, "(assert "+t.S+")")
}

// ---------------------------------------------------------------------------

type Obligation struct {
	Name      string   // stable name: <pkg>.<func>:<kind>
	Props     []string // property ids
	Func      string
	FuncKey   string
	Kind      string
	Path      int
	Trace     []string
	Pos       string
	Script    string
	Prefix    string // script up to (not including) the goal assertion
	After     string // site of the last call the function made before this obligation arose (identifies the failing path class)
	Seq       int    // position in the discharge order: makes the query file name unique
	Group     string // obligations of one group share Prefix and are first tried as one conjunction
	Goal      string
	Result    SolveResult
	Candidate bool              // Result.Model comes from the weakened query (quantified assumptions dropped)
	MustFail  bool              // vacuity canary: expected sat
	Values    []string          // terms whose values are requested from the model
	Labels    map[string]string // term -> readable label
}

// VC is the verification context of one function under contract.
type VC struct {
	thorough bool // thorough tier: frames are compared location by location even for heaps the modifies clause names
	witness  *State // frame check: modifies targets take the values of this state instead of fresh ones
	iptrBase map[string]*Term // materialised interior pointers: the object each points into
	eng           *Engine
	fn            *ssa.Function
	contract      *Contract
	props         []string
	decls         []string
	declSet       map[string]bool
	axioms        []string
	obls          []*Obligation
	nfresh        int
	npaths        int
	notes         map[string]bool // assumptions / abstractions applied (for evidence)
	used          map[string]bool // assumed contracts & handlers actually used
	refused       string          // non-empty: function is out of reach, with the reason
	safety        bool
	debugNames    map[*ssa.Function]map[string][]*ssa.DebugRef
	entry         *State
	params        map[string]SV
	curIns        ssa.Instruction
	defs          map[string]string // named heap terms (define-fun name -> body)
	iterPid       map[string]int    // database iterator (term) -> key space it walks
	iterSeekState map[string]string // database iterator (term) -> fingerprint of the database heaps at its Seek
	groupKey      string
	groupPrefix   string
	valueNames    []string
	valueLabels   map[string]string
	extraValues   []string
	maxPaths      int
	inlineDepth   int
	lets          map[string]SV
	nq            int
	nreturns      int
	lockCheck     bool
	curFrame      *Frame
	key           string
	nprune        int
	npruned       int
}

func (vc *VC) note(format string, args ...interface{}) {
	vc.notes[fmt.Sprintf(format, args...)] = true
}

func (vc *VC) declare(name string, s *Sort) {
	if vc.declSet[name] {
		return
	}
	vc.declSet[name] = true
	vc.decls = append(vc.decls, fmt.Sprintf("(declare-const %s %s)", name, s.Name))
}

func (vc *VC) declareFun(name string, args []*Sort, res *Sort) {
	if vc.declSet[name] {
		return
	}
	vc.declSet[name] = true
	var as []string
	for _, a := range args {
		as = append(as, a.Name)
	}
	vc.decls = append(vc.decls, fmt.Sprintf("(declare-fun %s (%s) %s)", name, strings.Join(as, " "), res.Name))
}

func (vc *VC) fresh(hint string, s *Sort) *Term {
	vc.nfresh++
	name := fmt.Sprintf("%s_%d", smtName(hint), vc.nfresh)
	vc.declare(name, s)
	return T(s, name)
}

// heap returns the current term of a heap, declaring its initial value on first use.
func (vc *VC) heap(st *State, name string, s *Sort) *Term {
	if t, ok := st.heaps[name]; ok {
		return t
	}
	if st.epoch != "" {
		// everything was havocked earlier on this path (a call without a frame, a loop that may write anything):
		// a heap that is touched for the first time only now is what that havoc left, not the heap of the entry state
		init := name + "_e" + st.epoch
		first := !vc.declSet[init]
		vc.declare(init, s)
		t := T(s, init)
		st.heaps[name] = t
		if first && strings.HasPrefix(name, "H_") && s.Elem != nil && st.epochAlloc != nil {
			if f := vc.heapFacts(t, s.Elem, st.epochAlloc); f != nil {
				vc.axiom(f.S)
			}
		}
		return t
	}
	init := name + "_0"
	first := !vc.declSet[init]
	vc.declare(init, s)
	t := T(s, init)
	st.heaps[name] = t
	if first && strings.HasPrefix(name, "H_") && s.Elem != nil {
		// entry-state well-formedness: nothing reachable at entry points beyond alloc_0
		if f := vc.heapFacts(t, s.Elem, T(sortInt, "alloc_0")); f != nil {
			vc.axiom(f.S)
		}
	}
	if first && (strings.HasPrefix(name, "MV_") || strings.HasPrefix(name, "HA_")) && s.Elem != nil && s.Elem.Elem != nil {
		if f := vc.heapFacts2(t, s.Elem.Key, s.Elem.Elem, T(sortInt, "alloc_0")); f != nil {
			vc.axiom(f.S)
		}
	}
	return t
}

func (vc *VC) setHeap(st *State, name string, t *Term) {
	// name long store chains so that terms stay small
	if len(t.S) > 160 {
		// a definition, not an equation: array equalities are expensive for the solvers
		vc.nfresh++
		dn := fmt.Sprintf("%s_d%d", smtName(name), vc.nfresh)
		st.pc = append(st.pc, fmt.Sprintf("(define-fun %s () %s %s)", dn, t.Sort.Name, t.S))
		if vc.defs == nil {
			vc.defs = map[string]string{}
		}
		vc.defs[dn] = t.S
		t = T(t.Sort, dn)
	}
	st.heaps[name] = t
}

func heapName(prefix string, s *Sort) string { return prefix + "_" + smtName(s.Name) }

func (vc *VC) objHeap(st *State, s *Sort) (string, *Term) {
	n := heapName("H", s)
	return n, vc.heap(st, n, vc.eng.st.ArrayOf(sortInt, s))
}

func (vc *VC) arrHeap(st *State, elem *Sort) (string, *Term) {
	n := heapName("HA", elem)
	return n, vc.heap(st, n, vc.eng.st.ArrayOf(sortInt, vc.eng.st.ArrayOf(sortInt, elem)))
}

func (vc *VC) boxHeap(st *State, s *Sort) (string, *Term) {
	n := heapName("B", s)
	return n, vc.heap(st, n, vc.eng.st.ArrayOf(sortInt, s))
}

type mapHeaps struct {
	pn, vn, nn string
	p, v, n    *Term
	k, e       *Sort
}

// mapHeapsOf: the three heaps (presence, values, cardinality) holding all maps of one Go map
// type. Maps of different Go types live in different heaps (they can never alias).
func (vc *VC) mapHeapsOf(st *State, mt *types.Map) mapHeaps {
	T := vc.eng.st
	k, e := T.SortOf(mt.Key()), T.SortOf(mt.Elem())
	suffix := smtName(shortTypeName(mt.Key())) + "_" + smtName(shortTypeName(mt.Elem()))
	if len(suffix) > 70 {
		suffix = fmt.Sprintf("%s_%d", suffix[:60], vc.eng.tagOf(mt))
	}
	mh := mapHeaps{pn: "MP_" + suffix, vn: "MV_" + suffix, nn: "MN_" + suffix, k: k, e: e}
	mh.p = vc.heap(st, mh.pn, T.ArrayOf(sortInt, T.ArrayOf(k, sortBool)))
	mh.v = vc.heap(st, mh.vn, T.ArrayOf(sortInt, T.ArrayOf(k, e)))
	mh.n = vc.heap(st, mh.nn, T.ArrayOf(sortInt, sortInt))
	return mh
}

// newRef allocates a fresh non-nil reference.
func (vc *VC) newRef(st *State, hint string) *Term {
	r := vc.fresh(hint, sortInt)
	st.assume(Bin(sortBool, ">", r, st.alloc))
	st.alloc = r
	allocRefs.Store(r.S, true)
	return r
}

// ---------------------------------------------------------------------------
// pointer load / store

func (vc *VC) rootLoad(st *State, p *Ptr) *Term {
	switch p.Root {
	case RObj:
		_, h := vc.objHeap(st, p.Sort)
		return Select(h, p.Base, p.Sort)
	case RElem:
		_, h := vc.arrHeap(st, p.Sort)
		arr := Select(h, p.Base, vc.eng.st.ArrayOf(sortInt, p.Sort))
		return Select(arr, p.Idx, p.Sort)
	case RArr:
		_, h := vc.arrHeap(st, p.Sort)
		return Select(h, p.Base, vc.eng.st.ArrayOf(sortInt, p.Sort))
	}
	panic("rootLoad")
}

func (vc *VC) rootStore(st *State, p *Ptr, v *Term) {
	switch p.Root {
	case RObj:
		n, h := vc.objHeap(st, p.Sort)
		vc.setHeap(st, n, Store(h, p.Base, v))
	case RElem:
		n, h := vc.arrHeap(st, p.Sort)
		arr := Select(h, p.Base, vc.eng.st.ArrayOf(sortInt, p.Sort))
		vc.setHeap(st, n, Store(h, p.Base, Store(arr, p.Idx, v)))
	case RArr:
		n, h := vc.arrHeap(st, p.Sort)
		vc.setHeap(st, n, Store(h, p.Base, v))
	}
}

func pathGet(t *Term, path []PathStep) *Term {
	for _, s := range path {
		if s.Index != nil {
			t = Select(t, s.Index, t.Sort.Elem)
		} else {
			t = FieldGet(t, s.Field)
		}
	}
	return t
}

func pathSet(t *Term, path []PathStep, v *Term) *Term {
	if len(path) == 0 {
		return v
	}
	s := path[0]
	if s.Index != nil {
		inner := Select(t, s.Index, t.Sort.Elem)
		return Store(t, s.Index, pathSet(inner, path[1:], v))
	}
	inner := FieldGet(t, s.Field)
	return FieldSet(t, s.Field, pathSet(inner, path[1:], v))
}

func (vc *VC) load(st *State, p *Ptr) *Term {
	return pathGet(vc.rootLoad(st, p), p.Path)
}

func (vc *VC) store(st *State, p *Ptr, v *Term) {
	if len(p.Path) == 0 {
		vc.rootStore(st, p, v)
		return
	}
	root := vc.rootLoad(st, p)
	vc.rootStore(st, p, pathSet(root, p.Path, v))
}

// targetSort is the sort of the location a pointer designates.
func (vc *VC) targetSort(p *Ptr) *Sort {
	var s *Sort
	switch p.Root {
	case RObj, RElem:
		s = p.Sort
	case RArr:
		s = vc.eng.st.ArrayOf(sortInt, p.Sort)
	}
	for _, st := range p.Path {
		if st.Index != nil {
			s = s.Elem
		} else {
			s = s.Fields[st.Field].Sort
		}
	}
	return s
}

// ptrTerm turns a pointer into an SMT reference. Interior pointers are materialised as a
// pointer to a copy of the designated location (an abstraction, noted).
func (vc *VC) ptrTerm(st *State, p *Ptr, where string) *Term {
	if p.Nil {
		return IntLit(0)
	}
	if p.Root == RObj && len(p.Path) == 0 {
		return p.Base
	}
	if p.Root == RArr && len(p.Path) == 0 {
		return p.Base
	}
	ts := vc.targetSort(p)
	v := vc.load(st, p)
	r := vc.newRef(st, "iptr")
	n, h := vc.objHeap(st, ts)
	vc.setHeap(st, n, Store(h, r, v))
	vc.note("interior pointer materialised as pointer to a copy at %s", where)
	if vc.iptrBase == nil {
		vc.iptrBase = map[string]*Term{}
	}
	vc.iptrBase[r.S] = p.Base // allocated(..) in specifications speaks about the object pointed into
	return r
}

// asPtr views a value of pointer type as a Ptr.
func (vc *VC) asPtr(v Value, pointee types.Type) *Ptr {
	switch x := v.(type) {
	case *Ptr:
		if x.Nil {
			return vc.asPtr(IntLit(0), pointee)
		}
		return x
	case *Term:
		if arr, ok := types.Unalias(pointee).Underlying().(*types.Array); ok {
			return &Ptr{Root: RArr, Base: x, Sort: vc.eng.st.SortOf(arr.Elem())}
		}
		return &Ptr{Root: RObj, Base: x, Sort: vc.eng.st.SortOf(pointee)}
	}
	panic(fmt.Sprintf("asPtr: %T", v))
}

// term converts a Value to an SMT term.
func (vc *VC) term(st *State, v Value, where string) *Term {
	switch x := v.(type) {
	case *Term:
		return x
	case *Ptr:
		return vc.ptrTerm(st, x, where)
	case *Closure:
		// function identity: one constant per function; bindings are lost (noted)
		name := "fn_" + smtName(x.Fn.String())
		vc.declare(name, sortInt)
		vc.axiom(fmt.Sprintf("(> %s 0)", name))
		return T(sortInt, name)
	case nil:
		return IntLit(0)
	}
	panic(fmt.Sprintf("term: cannot convert %T at %s", v, where))
}

func (vc *VC) axiom(a string) {
	key := "ax:" + a
	if vc.declSet[key] {
		return
	}
	vc.declSet[key] = true
	vc.axioms = append(vc.axioms, a)
}

// ---------------------------------------------------------------------------
// string literals, type tags

func (e *Engine) strLit(s string) *Term {
	if s == "" {
		return T(sortStr, "str_empty")
	}
	if n, ok := e.strLits[s]; ok {
		return T(sortStr, n)
	}
	n := fmt.Sprintf("strlit_%d", len(e.strLits)+1)
	e.strLits[s] = n
	e.strOrder = append(e.strOrder, s)
	return T(sortStr, n)
}

func (e *Engine) strPreamble() string {
	var b strings.Builder
	names := []string{"str_empty"}
	for _, s := range e.strOrder {
		n := e.strLits[s]
		fmt.Fprintf(&b, "(declare-const %s Str) ; %q\n(assert (= (strlen %s) %d))\n", n, abbreviate(s, 60), n, len(s))
		names = append(names, n)
	}
	if len(names) > 1 {
		fmt.Fprintf(&b, "(assert (distinct %s))\n", strings.Join(names, " "))
	}
	// known prefix relations between literals
	for _, a := range e.strOrder {
		for _, c := range e.strOrder {
			if a != c && strings.HasPrefix(c, a) {
				fmt.Fprintf(&b, "(assert (strprefix %s %s))\n", e.strLits[a], e.strLits[c])
			} else if a != c && len(a) <= len(c) {
				fmt.Fprintf(&b, "(assert (not (strprefix %s %s)))\n", e.strLits[a], e.strLits[c])
			}
		}
	}
	return b.String()
}

func abbreviate(s string, n int) string {
	if len(s) > n {
		return s[:n] + "..."
	}
	return s
}

func (e *Engine) tagOf(t types.Type) int {
	key := types.TypeString(types.Unalias(t), nil)
	if n, ok := e.typeTags[key]; ok {
		return n
	}
	n := len(e.typeTags) + 1
	e.typeTags[key] = n
	e.tagTypes = append(e.tagTypes, t)
	return n
}

func sortedKeys(m map[string]bool) []string {
	var out []string
	for k := range m {
		out = append(out, k)
	}
	sort.Strings(out)
	return out
}

func (o *Obligation) fileBase() string {
	return fmt.Sprintf("%s_p%d_%d", o.Name, o.Path, o.Seq)
}

// unfoldSelect: "(select NAME i)" with NAME a named heap term is simplified through the definition (store chains over
// distinct allocation references), as far as that is syntactically possible.
func (vc *VC) unfoldSelect(t *Term) *Term {
	for k := 0; k < 32; k++ {
		a, ok := ctorArgs(t.S, "select")
		if !ok || len(a) != 2 {
			return t
		}
		body, isDef := vc.defs[a[0]]
		if !isDef {
			return t
		}
		n := Select(T(nil, body), T(sortInt, a[1]), t.Sort)
		if n.S == t.S {
			return t
		}
		t = n
	}
	return t
}
